"""Violation files and replay.

A violation file names the failed obligation, carries the verifier's output and -- when the
bounded search of kx/ (real code, small inputs) found one -- a concrete failing input.
`./check <id> --replay <file>` re-verifies the named obligation against the current tree and,
if the file carries an input, re-runs that input against the real code.
"""
import json
import os
import sys

VERIF = os.path.dirname(os.path.dirname(os.path.abspath(__file__)))
RDIR = os.path.join(VERIF, "work", "replay")


def write_violation(pid, label, obl, results, found=None):
    os.makedirs(RDIR, exist_ok=True)
    safe = label.replace("/", "-").replace(":", "_")
    path = os.path.join(RDIR, "%s-%s.json" % (pid, safe))
    unit = label.split("/", 1)[0]
    src = [r for r in results if r.unit == unit]
    doc = dict(property=pid, obligation=label, statement=obl["desc"], kind=obl["kind"],
               verifier="verus/z3", verifier_cmd=src[0].cmd if src else None,
               verifier_output=[e["rendered"] or e["message"] for e in obl["errors"]],
               functions=sorted({e["function"] for e in obl["errors"] if e["function"]}),
               input=found, note=("no failing input found by the bounded search; the obligation was discharged on the "
                                  "unchanged tree and is refuted/undischarged on this tree" if not found else
                                  "input replays on the real code"))
    with open(path, "w") as f:
        json.dump(doc, f, indent=1)
    return path


def has_input(path):
    try:
        return bool(json.load(open(path)).get("input"))
    except Exception:
        return False


def replay(pid, path):
    import run as R
    doc = json.load(open(path))
    unit, label = doc["obligation"].split("/", 1)
    r = R.verify_unit(unit, canary=False)
    if r.status == "undecided":
        print("UNDECIDED %s" % r.undecided_reason)
        return 2
    o = r.obligations.get(label)
    if o is None:
        print("UNDECIDED obligation %s no longer exists" % label)
        return 2
    if not o["discharged"]:
        print("VIOLATION property=%s replay=%s%s" % (pid, path, "" if doc.get("input") else " no-failing-input-found"))
        for e in o["errors"]:
            print(e["rendered"])
        return 1
    print("OK obligation %s is discharged on the current tree" % doc["obligation"])
    return 0
