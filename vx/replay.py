"""Violation files and replay.

A violation file names the failed obligation, carries the verifier's output and -- when the
bounded search of kx/ (real code, small inputs) found one -- a concrete failing input.
`./check <id> --replay <file>` re-verifies the named obligation against the current tree and,
if the file carries an input, re-runs that input against the real code.
"""
import json
import os
import sys

VERIF = os.path.dirname(os.path.dirname(os.path.abspath(__file__)))
RDIR = os.path.join(VERIF, "work", "replay")


def write_violation(pid, label, obl, results, found=None):
    os.makedirs(RDIR, exist_ok=True)
    safe = label.replace("/", "-").replace(":", "_")
    path = os.path.join(RDIR, "%s-%s.json" % (pid, safe))
    unit = label.split("/", 1)[0]
    src = [r for r in results if r.unit == unit]
    doc = dict(property=pid, obligation=label, statement=obl["desc"], kind=obl["kind"],
               verifier="verus/z3", verifier_cmd=src[0].cmd if src else None,
               verifier_output=[e["rendered"] or e["message"] for e in obl["errors"]],
               functions=sorted({e["function"] for e in obl["errors"] if e["function"]}),
               input=found, note=("no failing input found by the bounded search; the obligation was discharged on the "
                                  "unchanged tree and is refuted/undischarged on this tree" if not found else
                                  "input replays on the real code"))
    with open(path, "w") as f:
        json.dump(doc, f, indent=1)
    return path


def write_kani_violation(pid, function, fd):
    """A violation found by the bounded Kani companion and replayed on the real code (vx/kani.py)."""
    os.makedirs(RDIR, exist_ok=True)
    path = os.path.join(RDIR, "%s-kani-%s.json" % (pid, fd["harness"]))
    doc = dict(property=pid, obligation="kani/%s" % fd["harness"], kind="bounded-kani",
               statement=("the real function %s, on every input of at most %d bytes, %s" % (
                   function, fd["bound_bytes"], "returns without panic / overflow / out-of-bounds access" if fd["kind"] == "total"
                   else "agrees with the executable oracle transcribed from vx/specs/parser.rs")),
               verifier="kani 0.68 / cbmc (bounded), counterexample replayed natively on the real code",
               input=dict(harness=fd["harness"], function=function, bytes=fd["input"], bytes_repr=repr(bytes(fd["input"])),
                          real_result=fd.get("real_result")),
               note="input replays on the real code: `./check %s --replay <this file>` re-runs it against the current tree" % pid)
    with open(path, "w") as f:
        json.dump(doc, f, indent=1)
    return path


def has_input(path):
    try:
        return bool(json.load(open(path)).get("input"))
    except Exception:
        return False


def replay(pid, path):
    import run as R
    doc = json.load(open(path))
    inp = doc.get("input")
    if isinstance(inp, dict) and inp.get("harness"):
        # a concrete input found by the bounded companion: run it against the real code of the current tree
        import kani as KN
        data = inp.get("bytes") if inp.get("bytes") is not None else inp.get("input")
        rr = KN.replay_file_cases([dict(harness=inp["harness"], input=data)])[0]
        print("input %s on %s: real result %s" % (inp.get("bytes_repr"), inp.get("function"), rr["real_result"]))
        if not rr["ran"]:
            print("UNDECIDED replay did not run: %s" % rr["observed"][-300:])
            return 2
        if rr["confirmed"]:
            print("VIOLATION property=%s replay=%s" % (pid, path))
            return 1
        if doc.get("kind") == "bounded-kani":
            print("OK the stored input no longer fails on the current tree")
            return 0
    unit, label = doc["obligation"].split("/", 1)
    r = R.verify_unit(unit, canary=False)
    if r.status == "undecided":
        print("UNDECIDED %s" % r.undecided_reason)
        return 2
    o = r.obligations.get(label)
    if o is None:
        print("UNDECIDED obligation %s no longer exists" % label)
        return 2
    if not o["discharged"]:
        print("VIOLATION property=%s replay=%s%s" % (pid, path, "" if doc.get("input") else " no-failing-input-found"))
        for e in o["errors"]:
            print(e["rendered"])
        return 1
    print("OK obligation %s is discharged on the current tree" % doc["obligation"])
    return 0
