// ASSUMED model of std::io::{Write, BufWriter, Error} for ModifiedFile::write_to (C01 write-back side).
// `bw_view(w)` = the bytes handed to the buffered writer so far, in order.  Assumed: a fresh BufWriter has been handed
// nothing; `write_all` that returns Ok has appended exactly `buf`.  NOT modelled: that BufWriter passes these bytes on
// to the underlying writer unchanged and in order (std's documented behaviour; the flush on drop ignores errors).
use std::io;
use std::io::{Write, BufWriter};
#[verifier::external_trait_specification]
pub trait ExIoWrite { type ExternalTraitSpecificationFor: std::io::Write; }
#[verifier::external_type_specification]
#[verifier::external_body]
pub struct ExIoError(std::io::Error);
#[verifier::external_type_specification]
#[verifier::external_body]
#[verifier::reject_recursive_types(W)]
pub struct ExBufWriter<W: ?Sized + std::io::Write>(std::io::BufWriter<W>);

pub uninterp spec fn bw_view<W: ?Sized + std::io::Write>(w: &std::io::BufWriter<W>) -> Seq<u8>;

pub assume_specification<W: std::io::Write>[std::io::BufWriter::<W>::new](inner: W) -> (r: std::io::BufWriter<W>)
    ensures bw_view(&r) == Seq::<u8>::empty();

pub assume_specification<W: ?Sized + std::io::Write>[<std::io::BufWriter<W> as std::io::Write>::write_all](w: &mut std::io::BufWriter<W>, buf: &[u8]) -> (r: Result<(), std::io::Error>)
    ensures r is Ok ==> bw_view(final(w)) == bw_view(old(w)) + buf@;
