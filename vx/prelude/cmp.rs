use std::cmp::{max, min};
use vstd::std_specs::cmp::OrdSpec;
// ASSUMED (prelude row "std::cmp::max/min"): documented behaviour of core::cmp::{max,min}.
pub assume_specification<T: Ord>[ std::cmp::max::<T> ](a: T, b: T) -> (r: T)
    ensures
        T::obeys_cmp_spec() ==> (r == if a.cmp_spec(&b) == std::cmp::Ordering::Greater { a } else { b }),
;
pub assume_specification<T: Ord>[ std::cmp::min::<T> ](a: T, b: T) -> (r: T)
    ensures
        T::obeys_cmp_spec() ==> (r == if a.cmp_spec(&b) == std::cmp::Ordering::Greater { b } else { a }),
;

// ASSUMED (std docs, `usize::abs_diff`): "Computes the absolute difference between self and other."
pub assume_specification[ usize::abs_diff ](a: usize, b: usize) -> (r: usize)
    ensures r == (if a >= b { a - b } else { b - a });
