use std::cmp::{max, min};
use vstd::std_specs::cmp::OrdSpec;
// ASSUMED (prelude row "std::cmp::max/min"): documented behaviour of core::cmp::{max,min}.
pub assume_specification<T: Ord>[ std::cmp::max::<T> ](a: T, b: T) -> (r: T)
    ensures
        T::obeys_cmp_spec() ==> (r == if a.cmp_spec(&b) == std::cmp::Ordering::Greater { a } else { b }),
;
pub assume_specification<T: Ord>[ std::cmp::min::<T> ](a: T, b: T) -> (r: T)
    ensures
        T::obeys_cmp_spec() ==> (r == if a.cmp_spec(&b) == std::cmp::Ordering::Greater { b } else { a }),
;
