use std::cmp::{max, min};
use vstd::std_specs::cmp::OrdSpec;
// ASSUMED (prelude row "std::cmp::max/min"): documented behaviour of core::cmp::{max,min}.
pub assume_specification<T: Ord>[ std::cmp::max::<T> ](a: T, b: T) -> (r: T)
    ensures
        T::obeys_cmp_spec() ==> (r == if a.cmp_spec(&b) == std::cmp::Ordering::Greater { a } else { b }),
;
pub assume_specification<T: Ord>[ std::cmp::min::<T> ](a: T, b: T) -> (r: T)
    ensures
        T::obeys_cmp_spec() ==> (r == if a.cmp_spec(&b) == std::cmp::Ordering::Greater { b } else { a }),
;

// ASSUMED (std docs, `usize::abs_diff`): "Computes the absolute difference between self and other."
pub assume_specification[ usize::abs_diff ](a: usize, b: usize) -> (r: usize)
    ensures r == (if a >= b { a - b } else { b - a });

// ASSUMED (std docs): isize::abs (overflows, i.e. panics in debug builds, only for isize::MIN), unsigned_abs,
// saturating_sub / saturating_add ("saturating at the numeric bounds instead of overflowing").  Added so that a change
// which starts using them is decided instead of being undecided for a missing specification.
pub assume_specification[ isize::abs ](a: isize) -> (r: isize)
    requires a > isize::MIN,
    ensures r == (if a >= 0 { a as int } else { -(a as int) });
pub assume_specification[ isize::unsigned_abs ](a: isize) -> (r: usize)
    ensures r == (if a >= 0 { a as int } else { -(a as int) });
pub assume_specification[ isize::saturating_sub ](a: isize, b: isize) -> (r: isize)
    ensures r == (if a - b > isize::MAX { isize::MAX as int } else if a - b < isize::MIN { isize::MIN as int } else { a - b });
pub assume_specification[ isize::saturating_add ](a: isize, b: isize) -> (r: isize)
    ensures r == (if a + b > isize::MAX { isize::MAX as int } else if a + b < isize::MIN { isize::MIN as int } else { a + b });
