// Stand-ins and ASSUMED contracts for std::path and the name-resolution environment (unit `names`, property C16).
use std::path::{Path, PathBuf, Components, Component};

// ---- opaque std types (no vstd spec): only what the ASSUMED contracts below say is known about them.
#[verifier::external_type_specification]
#[verifier::external_body]
pub struct ExPath(std::path::Path);
#[verifier::external_type_specification]
#[verifier::external_body]
pub struct ExPathBuf(std::path::PathBuf);
#[verifier::external_type_specification]
#[verifier::external_body]
pub struct ExComponents<'a>(std::path::Components<'a>);
#[verifier::external_type_specification]
#[verifier::external_body]
pub struct ExComponent<'a>(std::path::Component<'a>);

/// Ghost model of a path: the sequence of its components (what `Path::components()` iterates over).
pub uninterp spec fn path_comps<'a>(p: &'a Path) -> Seq<Component<'a>>;
pub uninterp spec fn pathbuf_comps<'a>(p: PathBuf) -> Seq<Component<'a>>;

// ASSUMED (std docs, `Path::components`): the iterator yields the components of the path, front to back;
// `Components` is a well-behaved finite iterator, so vstd's `remaining()` (what it will still yield) is the sequence of
// the components not yet consumed and `next()` drops the first of them if any (vstd's iterator laws).
pub assume_specification<'a>[ std::path::Path::components ](p: &'a Path) -> (r: Components<'a>)
    ensures
        r.obeys_prophetic_iter_laws(),
        r.remaining() == path_comps(p),
;
// ASSUMED (std docs, `Components::as_path`): "Extracts a slice corresponding to the portion of the path remaining for
// iteration" -- the path of the remaining components.
pub assume_specification<'a>[ std::path::Components::<'a>::as_path ](c: &Components<'a>) -> (r: &'a Path)
    ensures
        path_comps(r) == c.remaining(),
;
// ASSUMED: PathBuf is an owned Path: `to_path_buf` copies the path, deref gives the same path back.
pub assume_specification[ std::path::Path::to_path_buf ](p: &Path) -> (r: PathBuf)
    ensures
        pathbuf_comps(r) == path_comps(p),
;
pub assume_specification<'a>[ <PathBuf as std::ops::Deref>::deref ](p: &'a PathBuf) -> (r: &'a Path)
    ensures
        path_comps(r) == pathbuf_comps(*p),
;

// R4-type: `Cow<'a, Path>` is rewritten to the local two-variant enum `PathCow2<'a>` (Verus' trait-conflict checker
// rejects `Cow<Path>`); `Cow::Owned` / `Cow::Borrowed` patterns and constructors are rewritten to `PathCow2::Owned` /
// `PathCow2::Borrowed`.  Same variants, same payload types as the real `Cow<Path>`.
pub enum PathCow2<'a> { Borrowed(&'a Path), Owned(PathBuf) }

// ASSUMED: cloning a name gives an equal name (needed only because FilePatch derives Clone).
impl<'a> Clone for PathCow2<'a> {
    #[verifier::external_body]
    fn clone(&self) -> (r: Self) ensures r == *self { unimplemented!() }
}

/// the components of a name
pub open spec fn cow_comps<'a>(c: PathCow2<'a>) -> Seq<Component<'a>> {
    match c { PathCow2::Borrowed(p) => path_comps(p), PathCow2::Owned(pb) => pathbuf_comps(pb) }
}

// ASSUMED (std docs, `impl PartialEq for Path`/`Cow`): two names are `==` iff their component sequences are equal
// (comparison goes through `Path::components`, whatever the Cow variant).
impl<'a> PartialEq for PathCow2<'a> {
    #[verifier::external_body]
    fn eq(&self, other: &PathCow2<'a>) -> (r: bool)
        ensures r == (cow_comps(*self) == cow_comps(*other))
    { unimplemented!() }
}
impl<'a> vstd::std_specs::cmp::PartialEqSpecImpl for PathCow2<'a> {
    open spec fn obeys_eq_spec() -> bool { true }
    open spec fn eq_spec(&self, other: &PathCow2<'a>) -> bool { cow_comps(*self) == cow_comps(*other) }
}

// ---- the environment of name resolution (rapidquilt::apply)

// D4 stand-in for `ApplyConfig` (src/rapidquilt/apply/mod.rs) restricted to the one field the unit reads.
pub struct ApplyConfig<'a> { pub base_dir: &'a Path }

/// State of the disk at the time of the call: does `base/name` exist?  (Uninterpreted: the unit only needs that the
/// decision is a function of this fact.)
pub uninterp spec fn disk_exists<'a>(base: &Path, name: Seq<Component<'a>>) -> bool;

// R4-exists: the expression `config.base_dir.join(old_filename).exists()` is rewritten to
// `path_exists_under(config.base_dir, old_filename)`.  ASSUMED: it reports the state of the disk (`disk_exists`) for
// the name's components under the base directory (Path::join + Path::exists; equal names denote the same file).
#[verifier::external_body]
pub fn path_exists_under(base_dir: &Path, name: &PathCow2) -> (r: bool)
    ensures r == disk_exists(base_dir, cow_comps(*name))
{ unimplemented!() }

// D4 stand-in for `ModifiedFiles` (src/rapidquilt/apply/common.rs: a HashMap<Cow<Path>, ModifiedFile> behind Deref).
// Ghost view: a map from names (component sequences; HashMap keys are compared with `==`, i.e. by components) to the
// in-memory file state.  ASSUMED (HashMap::get): returns the entry of the key if there is one.
#[verifier::external_body]
pub struct ModifiedFiles<'arena, 'config> { _p: &'arena (), _q: &'config () }
pub uninterp spec fn mf_view<'arena, 'config>(m: ModifiedFiles<'arena, 'config>) -> Map<Seq<Component<'arena>>, ModifiedFile<'arena>>;
impl<'arena, 'config> ModifiedFiles<'arena, 'config> {
    #[verifier::external_body]
    pub fn get(&self, k: &PathCow2<'arena>) -> (r: Option<&ModifiedFile<'arena>>)
        ensures
            r matches Some(f) ==> mf_view(*self).dom().contains(cow_comps(*k)) && *f == mf_view(*self)[cow_comps(*k)],
            r is None ==> !mf_view(*self).dom().contains(cow_comps(*k)),
    { unimplemented!() }
}
