// D4 stand-ins for crate::analysis (not extracted): the analyses receive shared references only; Rust's
// `&` typing is the frame condition (they cannot change the file, the patch or the report), so no ensures is needed.
// R4: the callback type `&dyn Fn(&dyn Note, &TextFilePatch)` is rewritten to the opaque `&NoteFn`.
#[verifier::external_body]
pub struct AnalysisSet { _p: () }
#[verifier::external_body]
pub struct NoteFn { _p: () }
impl AnalysisSet {
    #[verifier::external_body]
    pub fn before_modifications<'a>(&self, modified_file: &ModifiedFile<'a>, file_patch: &TextFilePatch<'a>, direction: PatchDirection,
                                report: &FilePatchApplyReport, fn_analysis_note: &NoteFn) { unimplemented!() }
    #[verifier::external_body]
    pub fn after_modifications<'a>(&self, modified_file: &ModifiedFile<'a>, file_patch: &TextFilePatch<'a>, direction: PatchDirection,
                               report: &FilePatchApplyReport, fn_analysis_note: &NoteFn) { unimplemented!() }
    #[verifier::external_body]
    pub fn default() -> AnalysisSet { unimplemented!() }
}
#[verifier::external_body]
pub fn fn_analysis_note_noop() -> NoteFn { unimplemented!() }
