// ASSUMED (prelude row "itertools::Itertools::interleave"): itertools 0.8 `Interleave::next` alternates between
// the two iterators starting with the first and continues with the other when one is exhausted.
// Cross-checked against the real itertools crate by kx/interleave_diff (exhaustive small ranges) in the thorough tier.
pub open spec fn interleave_seq<T>(a: Seq<T>, b: Seq<T>) -> Seq<T>
    decreases a.len() + b.len()
{
    if a.len() == 0 { b } else { seq![a[0]] + interleave_seq(b, a.subrange(1, a.len() as int)) }
}

pub struct Interleave<I, J> { pub a: I, pub b: J, pub flag: bool }
pub uninterp spec fn il_rem<I: Iterator, J: Iterator<Item = I::Item>>(x: Interleave<I, J>) -> Seq<I::Item>;
impl<I: Iterator, J: Iterator<Item = I::Item>> Iterator for Interleave<I, J> {
    type Item = I::Item;
    #[verifier::external_body]
    fn next(&mut self) -> Option<I::Item> { unimplemented!() }
}
impl<I: Iterator, J: Iterator<Item = I::Item>> vstd::std_specs::iter::IteratorSpecImpl for Interleave<I, J> {
    open spec fn obeys_prophetic_iter_laws(&self) -> bool { true }
    open spec fn remaining(&self) -> Seq<I::Item> { il_rem(*self) }
    open spec fn will_return_none(&self) -> bool { true }
    open spec fn decrease(&self) -> Option<nat> { Some(il_rem(*self).len()) }
    open spec fn peek(&self, i: int) -> Option<I::Item> { if 0 <= i < il_rem(*self).len() { Some(il_rem(*self)[i]) } else { None } }
}
pub trait Itertools: Iterator + Sized {
    fn interleave<J: Iterator<Item = Self::Item>>(self, other: J) -> (r: Interleave<Self, J>);
}
impl<I: Iterator + Sized> Itertools for I {
    #[verifier::external_body]
    fn interleave<J: Iterator<Item = I::Item>>(self, other: J) -> (r: Interleave<I, J>)
        ensures r.remaining() == interleave_seq(self.remaining(), other.remaining())
    { unimplemented!() }
}

// ASSUMED: an inclusive range whose start exceeds its end yields nothing (vstd proves this only for start == end + 1).
pub broadcast axiom fn axiom_range_inclusive_isize_empty(r: std::ops::RangeInclusive<isize>)
    requires r@.start > r@.end,
    ensures #[trigger] r.remaining().len() == 0;

// ASSUMED (std docs): `RangeInclusive::start()` / `end()` return the lower / upper bound the range was built with
// (`r@` is vstd's view of an inclusive range: its `start`, `end` and `exhausted` fields).
pub assume_specification<Idx>[ std::ops::RangeInclusive::<Idx>::end ](r: &std::ops::RangeInclusive<Idx>) -> (e: &Idx)
    ensures *e == r@.end;
pub assume_specification<Idx>[ std::ops::RangeInclusive::<Idx>::start ](r: &std::ops::RangeInclusive<Idx>) -> (s: &Idx)
    ensures *s == r@.start;
