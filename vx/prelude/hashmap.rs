// Assumed contracts on std's HashMap / hashing that vstd does not ship (unit `distributor`, property C07).
// vstd's own specs are used for `HashMap::entry`, `Entry::or_insert`, `Vec::push/len/index/index_mut`.
use std::collections::HashMap;
use std::hash::{BuildHasherDefault, Hash, Hasher};
use vstd::std_specs::hash::{builds_valid_hashers, obeys_key_model};

// R4-type: the foreign hasher type `seahash::SeaHasher` is rewritten to the local opaque type `SeaHasher`
// (the seahash crate is not available to Verus).  The rewrite is done by `//@ replace ... R4-type` directives at the
// three places the type is written (struct field, `new`, return type of `build`); std's `BuildHasherDefault<_>`
// around it is kept as it is in the source.  Nothing in the verified functions depends on the hash values: they
// see the map only through vstd's `Map<K, V>` view.
#[verifier::external_body]
pub struct SeaHasher { _p: () }
impl Hasher for SeaHasher {
    #[verifier::external_body]
    fn finish(&self) -> u64 { unimplemented!() }
    #[verifier::external_body]
    fn write(&mut self, bytes: &[u8]) { unimplemented!() }
}
impl Default for SeaHasher {
    #[verifier::external_body]
    fn default() -> SeaHasher { unimplemented!() }
}

// ASSUMED: std::hash::BuildHasherDefault<H> is an opaque (zero-sized) value type.
#[verifier::external_type_specification]
#[verifier::external_body]
#[verifier::reject_recursive_types(H)]
pub struct ExBuildHasherDefault<H>(BuildHasherDefault<H>);

// ASSUMED: `BuildHasherDefault::<H>::default()` returns (no panic, no contract on the value).
pub assume_specification<H>[ <BuildHasherDefault<H> as Default>::default ]() -> (r: BuildHasherDefault<H>);

// ASSUMED: `HashMap::with_hasher(s)` returns an empty map (std doc: "Creates an empty HashMap which will use the
// given hash builder to hash keys").
pub assume_specification<K, V, S>[ HashMap::<K, V, S>::with_hasher ](hash_builder: S) -> (r: HashMap<K, V, S>)
    ensures
        r@ == Map::<K, V>::empty(),
;

// ASSUMED: SeaHasher is a deterministic hasher (equal byte streams give equal hashes), hence
// `BuildHasherDefault<SeaHasher>` builds valid hashers in vstd's sense -- the same statement vstd makes about
// std's RandomState (`axiom_random_state_builds_valid_hashers`).  vstd's HashMap specs (entry, or_insert) are
// conditional on it.
pub broadcast axiom fn axiom_sea_builds_valid_hashers()
    ensures
        #[trigger] builds_valid_hashers::<BuildHasherDefault<SeaHasher>>(),
;

// ASSUMED (as a hypothesis, not an axiom): the key type `T` the distributor is instantiated with has `Hash` and `Eq`
// implementations that agree with each other and with spec equality (vstd's `obeys_key_model::<T>()`).  It cannot be
// proved for a generic `T: Hash + Eq`; it is a `requires` of `FilenameDistributor::add`.  The only instantiation in
// the code base is `T = Cow<Path>` (parallel.rs `FilenameDistributor::<Cow<Path>>::new`), whose `Hash`/`Eq` both go
// through `Path::components`.
pub open spec fn hash_keys_ok<T>() -> bool {
    obeys_key_model::<T>()
}

// ASSUMED (R4 rename `.values_mut()` -> `.v_values_mut()`): documented behaviour of `HashMap::values_mut`: the
// iterator yields exactly one `&mut V` per key of the map, in an unspecified order that is a function of the map's
// state (`hm_order(map)`: the keys in that order, no key twice, together exactly the key set); the reference yielded
// for key k holds the value stored under k when the iterator is created (`mut_ref_current`), and whatever is written
// through it is the value stored under k when the borrow ends (`mut_ref_future`); the key set does not change.
#[verifier::external_body]
#[verifier::reject_recursive_types(K)]
#[verifier::reject_recursive_types(V)]
pub struct VValuesMut<'a, K, V> { _p: std::collections::hash_map::ValuesMut<'a, K, V> }
pub uninterp spec fn vvm_rem<'a, K, V>(x: VValuesMut<'a, K, V>) -> Seq<&'a mut V>;
pub uninterp spec fn hm_order<K, V, S>(m: HashMap<K, V, S>) -> Seq<K>;
impl<'a, K, V> Iterator for VValuesMut<'a, K, V> {
    type Item = &'a mut V;
    #[verifier::external_body]
    fn next(&mut self) -> Option<&'a mut V> { self._p.next() }
}
impl<'a, K, V> vstd::std_specs::iter::IteratorSpecImpl for VValuesMut<'a, K, V> {
    open spec fn obeys_prophetic_iter_laws(&self) -> bool { true }
    open spec fn remaining(&self) -> Seq<&'a mut V> { vvm_rem(*self) }
    open spec fn will_return_none(&self) -> bool { true }
    open spec fn decrease(&self) -> Option<nat> { Some(vvm_rem(*self).len()) }
    open spec fn peek(&self, i: int) -> Option<&'a mut V> { if 0 <= i < vvm_rem(*self).len() { Some(vvm_rem(*self)[i]) } else { None } }
}
pub trait VValuesMutExt<K, V>: Sized {
    spec fn vm_view(&self) -> Map<K, V>;
    spec fn vm_order(&self) -> Seq<K>;
    fn v_values_mut<'a>(&'a mut self) -> (r: VValuesMut<'a, K, V>)
        ensures
            r.remaining().len() == old(self).vm_order().len(),
            final(self).vm_view().dom() == old(self).vm_view().dom(),
            forall|i: int| #![trigger r.remaining()[i]] #![trigger old(self).vm_order()[i]] 0 <= i < old(self).vm_order().len() ==>
                mut_ref_current(r.remaining()[i]) == old(self).vm_view()[old(self).vm_order()[i]]
                && mut_ref_future(r.remaining()[i]) == final(self).vm_view()[old(self).vm_order()[i]];
}
// ASSUMED: the iteration order of a map enumerates its key set, each key once.
pub axiom fn axiom_hm_order<K, V, S>(m: HashMap<K, V, S>)
    ensures
        hm_order(m).no_duplicates(),
        hm_order(m).to_set() == m@.dom(),
;
impl<K, V, S> VValuesMutExt<K, V> for HashMap<K, V, S> {
    open spec fn vm_view(&self) -> Map<K, V> { self@ }
    open spec fn vm_order(&self) -> Seq<K> { hm_order(*self) }
    #[verifier::external_body]
    fn v_values_mut<'a>(&'a mut self) -> (r: VValuesMut<'a, K, V>) { VValuesMut { _p: self.values_mut() } }
}
