// ASSUMED: the target is a 64-bit platform (usize/isize are 8 bytes), as for every build of rapidquilt we know of.
global size_of usize == 8;
use vstd::std_specs::cmp::PartialEqSpec;
use vstd::std_specs::iter::IteratorSpec;
