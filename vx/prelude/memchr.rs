// Stand-in for the external crate `memchr` (2.x) used by util/lines_with_endings.rs, and the `Vec::extend` shim.
//
// ASSUMED (prelude row "memchr::memchr_iter / Memchr"): `memchr_iter(b, hay)` returns an iterator that yields, in
// ascending order, exactly the indices i with hay[i] == b (documented behaviour of memchr::Memchr).  The stand-in is an
// opaque type with a ghost sequence `mc_rem` = the indices not yet yielded.  `next` never panics (no_unwind; needed
// because the caller's struct carries a type invariant).
// Stand-in detail: the real `Memchr` gets `next` from `impl Iterator`; here it is an inherent method with the same
// signature (an `Iterator::next` cannot be declared no_unwind), so the call `self.iter.next()` is extracted verbatim.

pub open spec fn pos_in(s: Seq<usize>, i: int) -> bool { exists|k: int| 0 <= k < s.len() && #[trigger] s[k] as int == i }
/// s is the strictly ascending list of all positions i >= from with hay[i] == b
pub open spec fn is_positions_from(s: Seq<usize>, b: u8, hay: Seq<u8>, from: int) -> bool {
    &&& forall|k: int| 0 <= k < s.len() ==> from <= #[trigger] s[k] < hay.len() && hay[s[k] as int] == b
    &&& forall|j: int, k: int| 0 <= j < k < s.len() ==> s[j] < s[k]
    &&& forall|i: int| from <= i < hay.len() && #[trigger] hay[i] == b ==> pos_in(s, i)
}

#[verifier::external_body]
pub struct Memchr<'a> { _p: &'a () }
pub uninterp spec fn mc_rem(m: Memchr) -> Seq<usize>;

// ASSUMED: all occurrences, ascending.
#[verifier::external_body]
pub fn memchr_iter<'a>(needle: u8, haystack: &'a [u8]) -> (r: Memchr<'a>)
    ensures
        is_positions_from(mc_rem(r), needle, haystack@, 0),
{ unimplemented!() }

impl<'a> Memchr<'a> {
    // ASSUMED: yields the not-yet-yielded positions in order, None when exhausted (and stays exhausted).
    #[verifier::external_body]
    pub fn next(&mut self) -> (r: Option<usize>)
        ensures
            mc_rem(*old(self)).len() == 0 ==> r is None && mc_rem(*final(self)) == mc_rem(*old(self)),
            mc_rem(*old(self)).len() > 0 ==> r == Some(mc_rem(*old(self))[0])
                && mc_rem(*final(self)) == mc_rem(*old(self)).drop_first(),
        no_unwind
    { unimplemented!() }
}

// ASSUMED (ghost-level statement of Rust's `&s[a..b]`): every sub-range of a slice is itself a slice value (with the
// same lifetime).  vstd specifies range indexing only as an exec postcondition; this states the existence in proofs.
pub axiom fn axiom_subslice_exists<'a, T>(s: &'a [T], a: int, b: int)
    requires 0 <= a <= b <= s@.len(),
    ensures exists|x: &'a [T]| x@ == s@.subrange(a, b);

// ASSUMED (prelude row "Vec::extend"): `v.extend(it)` appends exactly the items the iterator yields, in order.  Stated
// over vstd's iterator vocabulary: `it.remaining()` is the sequence the iterator will yield; the contract applies to
// iterators that obey vstd's iterator laws and are finite.  R4 rename `.extend(` -> `.v_extend(` selects this shim.
pub trait VExtendExt<T>: Sized {
    spec fn ve_view(&self) -> Seq<T>;
    fn v_extend<I: Iterator<Item = T>>(&mut self, iter: I)
        requires
            iter.obeys_prophetic_iter_laws(),
            iter.will_return_none(),
        ensures
            final(self).ve_view() == old(self).ve_view() + iter.remaining();
}
impl<T> VExtendExt<T> for Vec<T> {
    open spec fn ve_view(&self) -> Seq<T> { self@ }
    #[verifier::external_body]
    fn v_extend<I: Iterator<Item = T>>(&mut self, iter: I)
    { unimplemented!() }
}
