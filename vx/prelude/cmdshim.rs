// Stand-ins for the C17 block of cmd_push (R6).  ASSUMED / abstracted, each selected by a documented `replace` rule:
use std::path::PathBuf;
#[verifier::external_type_specification]
#[verifier::external_body]
pub struct ExPathBuf(std::path::PathBuf);
/// what PathBuf's equality compares (uninterpreted)
pub uninterp spec fn pb_key(p: PathBuf) -> int;
// ASSUMED: `==` / `!=` on PathBuf are an equivalence decided by pb_key
pub assume_specification[ <PathBuf as PartialEq>::eq ](a: &PathBuf, b: &PathBuf) -> (r: bool)
    ensures r == (pb_key(*a) == pb_key(*b));

// failure::Error and the format_err!(..) messages: an opaque value (R4-err: every `format_err!(...)` -> `mk_error()`)
#[verifier::external_body]
pub struct Error { _p: () }
#[verifier::external_body]
pub fn mk_error() -> Error { unimplemented!() }

// ASSUMED (R4-position): `v.iter().position(|item| item.filename == name)` is the first index whose filename equals name
#[verifier::external_body]
pub fn position_by_filename(v: &Vec<SeriesPatch>, name: &PathBuf) -> (r: Option<usize>)
    ensures
        r matches Some(i) ==> i < v@.len() && pb_key(v@[i as int].filename) == pb_key(*name)
                              && forall|j: int| 0 <= j < i ==> pb_key(#[trigger] v@[j].filename) != pb_key(*name),
        r is None ==> forall|j: int| 0 <= j < v@.len() ==> pb_key(#[trigger] v@[j].filename) != pb_key(*name),
{ unimplemented!() }
