// ASSUMED (documented std behaviour): Option::map_or(default, f) is `default` for None and `f(x)` for Some(x).
// The closure's result is known only as far as the closure declares an `ensures` (Verus exports nothing else).
pub assume_specification<T, U, F: FnOnce(T) -> U>[ Option::<T>::map_or ](opt: Option<T>, default: U, f: F) -> (r: U)
    requires
        opt matches Some(x) ==> f.requires((x,)),
    ensures
        opt is None ==> r == default,
        opt matches Some(x) ==> f.ensures((x,), r);

// ASSUMED (std docs): Option::or returns self if it is Some, otherwise the argument.
pub assume_specification<T>[ Option::<T>::or ](a: Option<T>, b: Option<T>) -> (r: Option<T>)
    ensures r == (if a is Some { a } else { b });
