// ASSUMED (prelude rows "Iterator::cloned", "Vec::splice"): documented std behaviour, stated over the iterator's
// remaining() sequence.  R4 renames `.cloned()` -> `.v_cloned()` and `.splice(` -> `.v_splice(` select these shims.
pub struct VCloned<I> { pub it: I }
pub uninterp spec fn vcloned_rem<'a, T: Clone + 'a, I: Iterator<Item = &'a T>>(x: VCloned<I>) -> Seq<T>;
impl<'a, T: Clone + 'a, I: Iterator<Item = &'a T>> Iterator for VCloned<I> {
    type Item = T;
    #[verifier::external_body]
    fn next(&mut self) -> Option<T> { unimplemented!() }
}
impl<'a, T: Clone + 'a, I: Iterator<Item = &'a T>> vstd::std_specs::iter::IteratorSpecImpl for VCloned<I> {
    open spec fn obeys_prophetic_iter_laws(&self) -> bool { true }
    open spec fn remaining(&self) -> Seq<T> { vcloned_rem(*self) }
    open spec fn will_return_none(&self) -> bool { true }
    open spec fn decrease(&self) -> Option<nat> { Some(vcloned_rem(*self).len()) }
    open spec fn peek(&self, i: int) -> Option<T> { if 0 <= i < vcloned_rem(*self).len() { Some(vcloned_rem(*self)[i]) } else { None } }
}
pub trait VClonedExt<'a, T: Clone + 'a>: Iterator<Item = &'a T> + Sized {
    fn v_cloned(self) -> (r: VCloned<Self>);
}
// cloning a `&[u8]` (a Copy reference) yields the same reference
impl<'a, 'b: 'a, I: Iterator<Item = &'a &'b [u8]> + Sized> VClonedExt<'a, &'b [u8]> for I {
    #[verifier::external_body]
    fn v_cloned(self) -> (r: VCloned<I>)
        ensures
            r.remaining() == self.remaining().map_values(|x: &'a &'b [u8]| *x),
    { unimplemented!() }
}

pub trait VSpliceExt<T>: Sized {
    spec fn vs_view(&self) -> Seq<T>;
    fn v_splice<I: Iterator<Item = T>>(&mut self, range: std::ops::Range<usize>, replace_with: I)
        requires
            range.start <= range.end <= old(self).vs_view().len(),   // std panics otherwise
        ensures
            final(self).vs_view() == old(self).vs_view().subrange(0, range.start as int) + replace_with.remaining()
                            + old(self).vs_view().subrange(range.end as int, old(self).vs_view().len() as int);
}
impl<T> VSpliceExt<T> for Vec<T> {
    open spec fn vs_view(&self) -> Seq<T> { self@ }
    #[verifier::external_body]
    fn v_splice<I: Iterator<Item = T>>(&mut self, range: std::ops::Range<usize>, replace_with: I)
    { unimplemented!() }
}
