// ASSUMED: std::fs::Permissions is an opaque value type; Clone returns an equal value.
use std::fs;
use std::fs::Permissions;
#[verifier::external_type_specification]
#[verifier::external_body]
pub struct ExPermissions(std::fs::Permissions);

pub assume_specification[ <std::fs::Permissions as Clone>::clone ](p: &std::fs::Permissions) -> (r: std::fs::Permissions)
    ensures r == *p;

// R4-type: `Cow<'a, Path>` is rewritten to the opaque `PathCow<'a>` (Verus' trait-conflict checker rejects
// `Cow<Path>`); the functions of this unit only test such values for Some/None and move them around.
#[verifier::external_body]
pub struct PathCow<'a> { _p: &'a () }
impl<'a> Clone for PathCow<'a> {
    #[verifier::external_body]
    fn clone(&self) -> (r: Self) ensures r == *self { unimplemented!() }
}

// ASSUMED (prelude row "Option::replace"): returns the old value and leaves Some(new).  R4: `x.replace(v)` on an
// Option is rewritten to `option_replace(&mut x, v)`.
#[verifier::external_body]
pub fn option_replace<T>(o: &mut Option<T>, v: T) -> (r: Option<T>)
    ensures r == *old(o), *final(o) == Some(v),
{ o.replace(v) }
