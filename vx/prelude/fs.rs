// ASSUMED: std::fs::Permissions is an opaque value type; Clone returns an equal value.
use std::fs;
use std::fs::Permissions;
#[verifier::external_type_specification]
#[verifier::external_body]
pub struct ExPermissions(std::fs::Permissions);

pub assume_specification[ <std::fs::Permissions as Clone>::clone ](p: &std::fs::Permissions) -> (r: std::fs::Permissions)
    ensures r == *p;
