// Assumed contracts used only by the unit `parser` (trusted base, see the ASSUMED comments).

// ASSUMED (prelude row "memchr::memchr"): memchr 2.x returns the index of the first occurrence of `needle`
// in `haystack`, or None if it does not occur.  (Local stand-in module: single-file mode has no extern crates.)
pub mod memchr {
    use vstd::prelude::*;
    #[verifier::external_body]
    pub fn memchr(needle: u8, haystack: &[u8]) -> (r: Option<usize>)
        ensures
            match r {
                Some(i) => i < haystack@.len() && haystack@[i as int] == needle
                           && forall|j: int| 0 <= j < i ==> haystack@[j] != needle,
                None => forall|j: int| 0 <= j < haystack@.len() ==> haystack@[j] != needle,
            },
    { unimplemented!() }
}

// ASSUMED: a reference to a byte slice is a fat pointer of two machine words (16 bytes on the 64-bit targets fixed by
// prelude/core.rs).  Only used to turn the byte bound of `Vec::reserve` into a bound on the number of elements.
pub axiom fn axiom_size_of_byte_slice_ref<'a>()
    ensures vstd::layout::size_of::<&'a [u8]>() == 16;

// ASSUMED (prelude row "Vec::reserve"; R4 renames `.reserve(` -> `.v_reserve(`): `Vec::reserve(additional)` panics with
// "capacity overflow" iff the needed capacity `len + additional` exceeds `isize::MAX` bytes (or overflows usize);
// otherwise it only changes the capacity, never the contents.  The first precondition below is that no-panic condition
// (sufficient whatever the current capacity is).  Running out of memory (allocator failure -> abort) is not modelled by
// std's contract; for the "memory in proportion to the input" part of C11 the unit uses `v_reserve_within`, the same
// operation with an additional GHOST argument `budget` (erased at run time) and the proof obligation
// `additional <= budget`: the call site states in which quantity the reservation is bounded (R4-budget rewrite
// `X.reserve(` -> `X.v_reserve_within(Ghost(BUDGET), `).
pub trait VReserveExt<T>: Sized {
    spec fn vr_view(&self) -> Seq<T>;
    fn v_reserve(&mut self, additional: usize)
        requires
            (old(self).vr_view().len() + additional) * vstd::layout::size_of::<T>() <= isize::MAX,
        ensures
            final(self).vr_view() == old(self).vr_view();
    fn v_reserve_within(&mut self, budget: Ghost<nat>, additional: usize)
        requires
            (old(self).vr_view().len() + additional) * vstd::layout::size_of::<T>() <= isize::MAX,
            additional <= budget@,
        ensures
            final(self).vr_view() == old(self).vr_view();
}
impl<T> VReserveExt<T> for Vec<T> {
    open spec fn vr_view(&self) -> Seq<T> { self@ }
    #[verifier::external_body]
    fn v_reserve(&mut self, additional: usize) { unimplemented!() }
    #[verifier::external_body]
    fn v_reserve_within(&mut self, budget: Ghost<nat>, additional: usize) { unimplemented!() }
}

// ASSUMED (Rust language invariant, reference "Behavior considered undefined" / `slice::from_raw_parts`): the total
// size of a slice never exceeds isize::MAX bytes, so a byte slice has at most isize::MAX elements.
pub broadcast axiom fn axiom_byte_slice_len(s: &[u8])
    ensures
        #[trigger] s@.len() <= isize::MAX;
