// Assumed contracts used only by the unit `parser` (trusted base, see the ASSUMED comments).

// ASSUMED (prelude row "memchr::memchr"): memchr 2.x returns the index of the first occurrence of `needle`
// in `haystack`, or None if it does not occur.  (Local stand-in module: single-file mode has no extern crates.)
pub mod memchr {
    use vstd::prelude::*;
    #[verifier::external_body]
    pub fn memchr(needle: u8, haystack: &[u8]) -> (r: Option<usize>)
        ensures
            match r {
                Some(i) => i < haystack@.len() && haystack@[i as int] == needle
                           && forall|j: int| 0 <= j < i ==> haystack@[j] != needle,
                None => forall|j: int| 0 <= j < haystack@.len() ==> haystack@[j] != needle,
            },
    { unimplemented!() }
}

// ASSUMED: a reference to a byte slice is a fat pointer of two machine words (16 bytes on the 64-bit targets fixed by
// prelude/core.rs).  Only used to turn the byte bound of `Vec::reserve` into a bound on the number of elements.
pub axiom fn axiom_size_of_byte_slice_ref<'a>()
    ensures vstd::layout::size_of::<&'a [u8]>() == 16;

// ASSUMED (prelude row "Vec::reserve"; R4 renames `.reserve(` -> `.v_reserve(`): `Vec::reserve(additional)` panics with
// "capacity overflow" iff the needed capacity `len + additional` exceeds `isize::MAX` bytes (or overflows usize);
// otherwise it only changes the capacity, never the contents.  The first precondition below is that no-panic condition
// (sufficient whatever the current capacity is).  Running out of memory (allocator failure -> abort) is not modelled by
// std's contract; for the "memory in proportion to the input" part of C11 the unit uses `v_reserve_within`, the same
// operation with an additional GHOST argument `budget` (erased at run time) and the proof obligation
// `additional <= budget`: the call site states in which quantity the reservation is bounded (R4-budget rewrite
// `X.reserve(` -> `X.v_reserve_within(Ghost(BUDGET), `).
pub trait VReserveExt<T>: Sized {
    spec fn vr_view(&self) -> Seq<T>;
    fn v_reserve(&mut self, additional: usize)
        requires
            (old(self).vr_view().len() + additional) * vstd::layout::size_of::<T>() <= isize::MAX,
        ensures
            final(self).vr_view() == old(self).vr_view();
    fn v_reserve_within(&mut self, budget: Ghost<nat>, additional: usize)
        requires
            (old(self).vr_view().len() + additional) * vstd::layout::size_of::<T>() <= isize::MAX,
            additional <= budget@,
        ensures
            final(self).vr_view() == old(self).vr_view();
}
impl<T> VReserveExt<T> for Vec<T> {
    open spec fn vr_view(&self) -> Seq<T> { self@ }
    #[verifier::external_body]
    fn v_reserve(&mut self, additional: usize) { unimplemented!() }
    #[verifier::external_body]
    fn v_reserve_within(&mut self, budget: Ghost<nat>, additional: usize) { unimplemented!() }
}

// ASSUMED (Rust language invariant, reference "Behavior considered undefined" / `slice::from_raw_parts`): the total
// size of a slice never exceeds isize::MAX bytes, so a byte slice has at most isize::MAX elements.
pub broadcast axiom fn axiom_byte_slice_len(s: &[u8])
    ensures
        #[trigger] s@.len() <= isize::MAX;


// ---------------------------------------------------------------------------------------------- text -> number (std)
// Verus has no byte-level reasoning about `str`.  The two std functions used by `parse_number_usize` are specified
// through an abstract function `str_bytes` (the UTF-8 bytes of a `&str`).
use std::str::FromStr;    // the real parser.rs has the same import at its top
pub uninterp spec fn str_bytes(s: &str) -> Seq<u8>;

pub open spec fn sh_all_ascii(v: Seq<u8>) -> bool { forall|i: int| 0 <= i < v.len() ==> #[trigger] v[i] < 128 }
pub open spec fn sh_all_digits(v: Seq<u8>) -> bool { forall|i: int| 0 <= i < v.len() ==> 48 <= #[trigger] v[i] <= 57 }
pub open spec fn sh_dec_value(s: Seq<u8>) -> nat
    decreases s.len()
{
    if s.len() == 0 { 0 } else { sh_dec_value(s.drop_last()) * 10 + (s.last() - 48) as nat }
}

#[verifier::external_type_specification]
#[verifier::external_body]
pub struct ExUtf8Error(core::str::Utf8Error);

#[verifier::external_type_specification]
#[verifier::external_body]
pub struct ExParseIntError(core::num::ParseIntError);

// ASSUMED (std docs, `core::str::from_utf8`): "Converts a slice of bytes to a string slice"; fails only if the slice is
// not valid UTF-8; bytes < 128 are always valid UTF-8 (ASCII); the returned str consists of exactly the given bytes.
pub assume_specification<'a>[ core::str::from_utf8 ](v: &'a [u8]) -> (r: Result<&'a str, core::str::Utf8Error>)
    ensures
        sh_all_ascii(v@) ==> r is Ok,
        r matches Ok(s) ==> str_bytes(s) == v@;

// ASSUMED (std docs, `impl FromStr for usize` / `from_str_radix(s, 10)`): a non-empty string of decimal digits parses to
// its decimal value if that fits `usize`, and gives `Err(ParseIntError { PosOverflow })` otherwise.  Nothing is said
// about other strings (empty, sign, non-digits): the result is then arbitrary.
pub assume_specification[ <usize as core::str::FromStr>::from_str ](s: &str) -> (r: Result<usize, core::num::ParseIntError>)
    ensures
        (str_bytes(s).len() > 0 && sh_all_digits(str_bytes(s))) ==> (match r {
            Ok(n) => n == sh_dec_value(str_bytes(s)),
            Err(_) => sh_dec_value(str_bytes(s)) > usize::MAX,
        });

pub open spec fn sh_all_oct_digits(v: Seq<u8>) -> bool { forall|i: int| 0 <= i < v.len() ==> 48 <= #[trigger] v[i] <= 55 }
pub open spec fn sh_oct_value(s: Seq<u8>) -> nat
    decreases s.len()
{
    if s.len() == 0 { 0 } else { sh_oct_value(s.drop_last()) * 8 + (s.last() - 48) as nat }
}
// ASSUMED (std docs, `u32::from_str_radix(s, 8)`): a non-empty string of octal digits parses to its octal value if that
// fits `u32` and gives an error otherwise.  Nothing is said about other strings or radices.
pub assume_specification[ u32::from_str_radix ](s: &str, radix: u32) -> (r: Result<u32, core::num::ParseIntError>)
    ensures
        (radix == 8 && str_bytes(s).len() > 0 && sh_all_oct_digits(str_bytes(s))) ==> (match r {
            Ok(n) => n == sh_oct_value(str_bytes(s)),
            Err(_) => sh_oct_value(str_bytes(s)) > u32::MAX,
        });

// ---------------------------------------------------------------------------------------------- literal prefixes
/// `s` starts with `p`
pub open spec fn prefix_is(s: Seq<u8>, p: Seq<u8>) -> bool { s.len() >= p.len() && s.subrange(0, p.len() as int) == p }
// ASSUMED (std docs, `<[T]>::strip_prefix`): "Returns a subslice with the prefix removed. If the slice starts with
// `prefix`, returns the subslice after the prefix, wrapped in `Some`. ... If the slice does not start with `prefix`,
// returns `None`."  Rule R9-inline rewrites `X.strip_prefix(b"LIT")` to `strip_prefix_lit(X, BS_<hex>)` (the generic
// `SlicePattern` bound of the std method cannot be named in an assume_specification).
#[verifier::external_body]
pub fn strip_prefix_lit<'a>(input: &'a [u8], prefix: &[u8]) -> (r: Option<&'a [u8]>)
    ensures
        r matches Some(rest) ==> prefix_is(input@, prefix@) && rest@ == input@.subrange(prefix@.len() as int, input@.len() as int),
        r is None ==> !prefix_is(input@, prefix@),
{ input.strip_prefix(prefix) }
