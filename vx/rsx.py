"""Minimal Rust lexical scanner used by the extractor.

Not a parser: it tokenises Rust source well enough to (a) find items by kind and
name, (b) match braces/parens outside strings, chars and comments, (c) strip
comments, (d) compare token streams.  Anything it cannot handle raises
ScanError, which the caller turns into exit 2 (undecided), never a verdict.
"""
import re


class ScanError(Exception):
    pass


IDENT_START = set("abcdefghijklmnopqrstuvwxyzABCDEFGHIJKLMNOPQRSTUVWXYZ_")
IDENT_CONT = IDENT_START | set("0123456789")


def tokenize(src, keep_comments=False):
    """Return list of (kind, text, start, end).  kinds: id, num, str, chr, life,
    punct, comment, ws (ws only if keep_comments)."""
    toks = []
    i, n = 0, len(src)
    while i < n:
        c = src[i]
        if c in " \t\r\n":
            j = i
            while j < n and src[j] in " \t\r\n":
                j += 1
            if keep_comments:
                toks.append(("ws", src[i:j], i, j))
            i = j
            continue
        if src.startswith("//", i):
            j = src.find("\n", i)
            if j < 0:
                j = n
            if keep_comments:
                toks.append(("comment", src[i:j], i, j))
            i = j
            continue
        if src.startswith("/*", i):
            depth, j = 1, i + 2
            while j < n and depth:
                if src.startswith("/*", j):
                    depth += 1
                    j += 2
                elif src.startswith("*/", j):
                    depth -= 1
                    j += 2
                else:
                    j += 1
            if depth:
                raise ScanError("unterminated block comment at %d" % i)
            if keep_comments:
                toks.append(("comment", src[i:j], i, j))
            i = j
            continue
        # raw strings r"..", r#".."#, br#".."#
        m = re.match(r'(b?r)(#*)"', src[i:i + 40])
        if m and (i == 0 or src[i - 1] not in IDENT_CONT):
            hashes = m.group(2)
            close = '"' + hashes
            j = src.find(close, i + len(m.group(0)))
            if j < 0:
                raise ScanError("unterminated raw string at %d" % i)
            j += len(close)
            toks.append(("str", src[i:j], i, j))
            i = j
            continue
        if c == '"' or (c == "b" and i + 1 < n and src[i + 1] == '"'):
            j = i + (2 if c == "b" else 1)
            while j < n and src[j] != '"':
                j += 2 if src[j] == "\\" else 1
            if j >= n:
                raise ScanError("unterminated string at %d" % i)
            j += 1
            toks.append(("str", src[i:j], i, j))
            i = j
            continue
        if c == "'" or (c == "b" and i + 1 < n and src[i + 1] == "'"):
            k = i + (1 if c == "b" else 0)
            # char literal: 'x' or '\..'; lifetime: 'ident not followed by '
            if src[k + 1] == "\\":
                j = k + 2
                while j < n and src[j] != "'":
                    j += 1
                j += 1
                toks.append(("chr", src[i:j], i, j))
                i = j
                continue
            if k + 2 < n and src[k + 2] == "'":
                j = k + 3
                toks.append(("chr", src[i:j], i, j))
                i = j
                continue
            if c == "'":
                j = i + 1
                while j < n and src[j] in IDENT_CONT:
                    j += 1
                toks.append(("life", src[i:j], i, j))
                i = j
                continue
            raise ScanError("bad byte-char literal at %d" % i)
        if c in IDENT_START:
            j = i
            while j < n and src[j] in IDENT_CONT:
                j += 1
            toks.append(("id", src[i:j], i, j))
            i = j
            continue
        if c.isdigit():
            j = i
            while j < n and (src[j] in IDENT_CONT or (src[j] == "." and j + 1 < n and src[j + 1].isdigit())):
                j += 1
            toks.append(("num", src[i:j], i, j))
            i = j
            continue
        # punctuation: multi-char operators kept as single chars except a few
        for op in ("..=", "...", "::", "->", "=>", "==", "!=", "<=", ">=", "&&", "||", "+=", "-=", "*=", "/=", "%=",
                   "^=", "&=", "|=", "<<", ">>", ".."):
            if src.startswith(op, i):
                toks.append(("punct", op, i, i + len(op)))
                i += len(op)
                break
        else:
            toks.append(("punct", c, i, i + 1))
            i += 1
    return toks


OPEN = {"(": ")", "[": "]", "{": "}"}
CLOSE = {")", "]", "}"}


def match_close(toks, k):
    """toks[k] is an opening bracket; return index of its matching close."""
    want = []
    for j in range(k, len(toks)):
        t = toks[j]
        if t[0] == "punct":
            if t[1] in OPEN:
                want.append(OPEN[t[1]])
            elif t[1] in CLOSE:
                if not want or want[-1] != t[1]:
                    raise ScanError("mismatched bracket %r at %d" % (t[1], t[2]))
                want.pop()
                if not want:
                    return j
    raise ScanError("unclosed bracket at %d" % toks[k][2])


def strip_comments(src):
    """Remove comments, keep everything else byte for byte (comments -> nothing,
    line structure preserved)."""
    out = []
    for kind, text, s, e in tokenize(src, keep_comments=True):
        if kind == "comment":
            # keep newlines inside block comments so line counts stay comparable
            out.append("\n" * text.count("\n"))
        else:
            out.append(text)
    return "".join(out)


ITEM_KW = {"fn", "struct", "enum", "type", "const", "impl", "trait", "static", "mod", "use", "macro_rules"}


def _attr_start(toks, k):
    """Walk backwards from token k over attributes `#[...]`, visibility and
    qualifiers; return index of first token belonging to the item."""
    j = k
    while True:
        # qualifiers before the keyword
        if j > 0 and toks[j - 1][0] == "id" and toks[j - 1][1] in ("pub", "unsafe", "async", "extern", "default"):
            j -= 1
            continue
        if j > 0 and toks[j - 1][1] == ")" :
            # pub(crate)
            d = 0
            m = j - 1
            while m >= 0:
                if toks[m][1] == ")":
                    d += 1
                elif toks[m][1] == "(":
                    d -= 1
                    if d == 0:
                        break
                m -= 1
            if m > 0 and toks[m - 1][1] == "pub":
                j = m - 1
                continue
        if j > 1 and toks[j - 1][1] == "]":
            d = 0
            m = j - 1
            while m >= 0:
                if toks[m][1] == "]":
                    d += 1
                elif toks[m][1] == "[":
                    d -= 1
                    if d == 0:
                        break
                m -= 1
            if m > 0 and toks[m - 1][1] == "#":
                j = m - 1
                continue
        return j


def item_end(toks, k):
    """toks[k] is the item keyword.  Return index of last token of the item
    (matching `}` of its body or terminating `;`)."""
    j = k
    depth_angle = 0
    while j < len(toks):
        t = toks[j]
        if t[0] == "punct":
            if t[1] in ("(", "["):
                j = match_close(toks, j)
            elif t[1] == "{":
                return match_close(toks, j)
            elif t[1] == ";":
                return j
        j += 1
    raise ScanError("item without end at %d" % toks[k][2])


def find_items(src, toks=None):
    """Yield (kind, name, first_tok, last_tok, kw_tok, depth_path) for items at
    every nesting level.  name for impl = the text between `impl` and `{`."""
    if toks is None:
        toks = tokenize(src)
    items = []

    def scan(lo, hi, path):
        j = lo
        while j < hi:
            t = toks[j]
            if t[0] == "id" and t[1] in ITEM_KW and (j + 1 < hi):
                # `impl` inside types (`impl Trait`) only at item position: previous token
                prev = toks[j - 1][1] if j > lo else ""
                if t[1] == "impl" and prev in ("->", ":", "(", ",", "<", "&", "="):
                    j += 1
                    continue
                if t[1] in ("type", "const") and prev in ("<", ",", "*"):
                    j += 1
                    continue
                if t[1] == "fn" and prev in (":", "(", ",", "<", "&", "->", "=", "dyn"):
                    j += 1  # fn pointer type
                    continue
                if t[1] == "fn" and toks[j + 1][0] != "id":
                    j += 1
                    continue
                end = item_end(toks, j)
                start = _attr_start(toks, j)
                if t[1] == "impl":
                    b = j
                    while toks[b][1] != "{":
                        b += 1
                    name = " ".join(x[1] for x in toks[j + 1:b])
                elif t[1] == "macro_rules":
                    name = toks[j + 2][1]
                else:
                    name = toks[j + 1][1]
                items.append((t[1], name, start, end, j, tuple(path)))
                if toks[end][1] == "}" and t[1] in ("impl", "fn", "mod", "trait"):
                    b = j
                    while toks[b][1] != "{" or False:
                        if toks[b][1] in ("(", "["):
                            b = match_close(toks, b)
                        b += 1
                    scan(b + 1, end, path + [(t[1], name)])
                j = end + 1
                continue
            j += 1

    scan(0, len(toks), [])
    return toks, items


def text_of(src, toks, a, b):
    return src[toks[a][2]:toks[b][3]]


def line_of(src, pos):
    return src.count("\n", 0, pos) + 1
