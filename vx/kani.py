#!/usr/bin/env python3
"""Bounded Kani companion for the leaf parsers of src/libpatch/patch/unified/parser.rs.

NEVER proof: every harness explores all inputs up to a stated number of bytes (kani/parser_harness.rs).  It is used
  * as a counterexample finder when the deductive route (Verus) reports a violation in, or is undecided about, the parser
    unit: a failed harness yields a CONCRETE input, which is then replayed natively on the real function (real memchr,
    real backtrace, `cargo test` in a scratch copy) before it is reported;
  * in the thorough tier of C11 / C01 as a labelled bounded check, also of parser functions outside the Verus subset.
A pass of these harnesses never turns an undecided run into a pass.

usage: vx/kani.py [--all | HARNESS ...] [--jobs N] [--timeout SECONDS]
"""
import json
import os
import re
import shutil
import subprocess
import sys
import tempfile
import time

VX = os.path.dirname(os.path.abspath(__file__))
VERIF = os.path.dirname(VX)
STUBS = os.path.join(VERIF, "kani", "stubs")
# harness file -> (source file it is appended to, module path of that file in the lib crate)
HARNESS_FILES = [
    dict(file=os.path.join(VERIF, "kani", "parser_harness.rs"), source="src/libpatch/patch/unified/parser.rs", mod="patch::unified::parser"),
    dict(file=os.path.join(VERIF, "kani", "lines_harness.rs"), source="src/libpatch/util/lines_with_endings.rs", mod="util::lines_with_endings"),
]


def repo():
    return os.environ.get("VERIF_REPO", "/repo")


def harness_table():
    """name -> dict(function, bound, kind) read from the harness file itself (single source)."""
    t = {}
    for hf in HARNESS_FILES:
        txt = open(hf["file"]).read()
        for m in re.finditer(r"total!\((\w+),\s*(\w+),\s*(\d+)\);", txt):
            t[m.group(1)] = dict(function=m.group(2), bound=int(m.group(3)), kind="total", source=hf["source"], mod=hf["mod"], hfile=hf["file"])
        for m in re.finditer(r"exact!\((exact_(\w+)),\s*(\w+),\s*(\d+)\);", txt):
            t[m.group(1)] = dict(function=m.group(2), bound=int(m.group(4)), kind="exact", check=m.group(3), source=hf["source"], mod=hf["mod"],
                                 hfile=hf["file"])
    return t


def shared_section(hfile):
    txt = open(hfile).read()
    a = txt.index("// ==== SHARED BEGIN")
    b = txt.index("// ==== SHARED END")
    return txt[a:b]


# which harnesses speak about which extracted function (for on-demand runs after a Verus failure)
def harnesses_for(functions):
    t = harness_table()
    return sorted(h for h, d in t.items() if d["function"] in functions)


def make_scratch():
    base = os.environ.get("VERIF_SCRATCH", "/tmp")
    d = tempfile.mkdtemp(prefix="vx_kani_", dir=base)
    r = repo()
    shutil.copytree(os.path.join(r, "src"), os.path.join(d, "src"))
    for f in ("Cargo.toml", "Cargo.lock"):
        src = os.path.join(r, f) if os.path.exists(os.path.join(r, f)) else os.path.join("/repo", f)
        shutil.copy(src, os.path.join(d, f))
    shutil.copytree(STUBS, os.path.join(d, "stubs"))
    shutil.copy(os.path.join(d, "Cargo.toml"), os.path.join(d, "Cargo.toml.orig"))
    with open(os.path.join(d, "Cargo.toml"), "a") as f:
        f.write('\n[patch.crates-io]\nbacktrace = { path = "stubs/backtrace" }\nmemchr = { path = "stubs/memchr" }\n')
    for hf in HARNESS_FILES:
        shutil.copy(os.path.join(d, hf["source"]), os.path.join(d, hf["source"] + ".orig"))
        with open(os.path.join(d, hf["source"]), "a") as f:
            f.write("\n" + open(hf["file"]).read())
    return d


def _env(d):
    e = dict(os.environ)
    e["CARGO_NET_OFFLINE"] = "true"
    e["CARGO_TARGET_DIR"] = os.path.join(d, "target")
    return e


def run_harnesses(d, names, jobs=6, timeout=900, playback=False):
    """One `cargo kani` invocation for all names.  Returns {name: dict(status, seconds, failed_checks, input)}.
    Kani refuses --concrete-playback together with --jobs: verdicts are taken in parallel (playback=False), concrete
    inputs in a second, sequential invocation for the failed harnesses only (playback=True)."""
    cmd = ["cargo", "kani", "--lib", "-Z", "unstable-options", "--harness-timeout", "%ds" % timeout, "--output-format", "terse"]
    if playback:
        cmd += ["-Z", "concrete-playback", "--concrete-playback=print"]
    else:
        cmd += ["-j", str(jobs)]
    cmd += ["--exact"]          # --harness is a substring filter otherwise (total_parse_hunk_line would also run .._and_count)
    for n in names:
        cmd += ["--harness", "%s::verif_kani::%s" % (harness_table()[n]["mod"], n)]
    t0 = time.time()
    try:
        p = subprocess.run(cmd, cwd=d, env=_env(d), capture_output=True, text=True, timeout=timeout * len(names) + 1200)
        out = p.stdout + "\n" + p.stderr
    except subprocess.TimeoutExpired as ex:
        out = (ex.stdout or "") + "\n" + (ex.stderr or "") if isinstance(ex.stdout, str) else ""
    wall = time.time() - t0
    res = {n: dict(status="error", seconds=None, failed_checks=[], input=None) for n in names}
    tab = harness_table()
    # per-harness verdicts.  Sequential output: "Checking harness X..." followed by its result; parallel (terse) output:
    # "Thread N: Checking harness X..." and later "Thread N:" followed by that harness's result block.
    bodies = {n: "" for n in names}
    cur = {}          # thread id (or None) -> harness name
    active = None
    for line in out.split("\n"):
        m = re.match(r"\s*(?:Thread (\d+): )?Checking harness [\w:]*verif_kani::(\w+)\.\.\.", line)
        if m:
            cur[m.group(1)] = m.group(2)
            active = m.group(2) if m.group(1) is None else None
            continue
        m = re.match(r"\s*Thread (\d+):\s*(.*)$", line)
        if m:
            active = cur.get(m.group(1))
            line = m.group(2)
        if line.startswith("Manual Harness Summary"):
            active = None
        if active in bodies:
            bodies[active] += line + "\n"
    for n in names:
        body = bodies[n]
        if re.search(r"VERIFICATION:- SUCCESSFUL", body):
            res[n]["status"] = "ok"
        elif re.search(r"CBMC timed out|timed out", body, re.I):
            res[n]["status"] = "timeout"        # Kani prints VERIFICATION:- FAILED for a time-out as well: NOT a failure
        elif re.search(r"out of memory", body, re.I):
            res[n]["status"] = "error"
        elif re.search(r"VERIFICATION:- FAILED", body):
            res[n]["status"] = "failed"
            res[n]["failed_checks"] = [x.strip()[:300] for x in re.findall(r"Failed Checks: (.*)", body)][:5]
            if re.search(r"not currently supported by Kani|out of memory|unwinding assertion", body, re.I) and not any(
                    re.search(r"assertion|index|overflow|panic|placeholder", c, re.I) for c in res[n]["failed_checks"]):
                res[n]["status"] = "error"          # a tool limit, not a property failure
        elif re.search(r"timed out|timeout", body, re.I):
            res[n]["status"] = "timeout"
        tm = re.search(r"Verification Time: ([0-9.]+)s", body)
        if tm:
            res[n]["seconds"] = float(tm.group(1))
    # summary lines (terse/parallel output may not keep the sections apart)
    for m in re.finditer(r"Verification failed for - [\w:]*verif_kani::(\w+)", out):
        if m.group(1) in res and res[m.group(1)]["status"] == "error" and not bodies.get(m.group(1)):
            res[m.group(1)]["status"] = "failed"
    # concrete playback tests
    for m in re.finditer(r"Concrete playback unit test for `[\w:]*verif_kani::(\w+)`:\s*```(.*?)```", out, re.S):
        n = m.group(1)
        if n not in res:
            continue
        vals = [[int(x) for x in v.split(",") if x.strip()] for v in re.findall(r"vec!\[([0-9, ]*)\],", m.group(2))]
        bound = tab[n]["bound"]
        if len(vals) >= bound + 1 and all(len(v) == 1 for v in vals[:bound]):
            buf = [v[0] for v in vals[:bound]]
            ln = int.from_bytes(bytes(vals[bound]), "little")
            if ln <= bound:
                res[n]["input"] = buf[:ln]
                res[n]["status"] = "failed"
    return res, out, wall


def replay_native(d, cases):
    """Run the REAL code (real memchr/backtrace: the [patch] section and the Kani module are removed again) on concrete
    inputs in unit tests.  cases: list of dict(harness, input).  For a `total` harness the real function is called; for an
    `exact` harness the SAME check function as in the Kani harness (shared section of kani/parser_harness.rs: real
    function vs. oracle, assert on disagreement).  A case is CONFIRMED iff the call panics.  One build for all cases."""
    tab = harness_table()
    shutil.copy(os.path.join(d, "Cargo.toml.orig"), os.path.join(d, "Cargo.toml"))
    for hf in HARNESS_FILES:
        shutil.copy(os.path.join(d, hf["source"] + ".orig"), os.path.join(d, hf["source"]))
    per_source = {}
    for k, c in enumerate(cases):
        h = tab[c["harness"]]
        body = ", ".join(str(b) for b in c["input"])
        if h["kind"] == "exact":
            real = "\"<see check>\".to_string()" if h["function"] == "split_lines" else "format!(\"{:?}\", %s(input))" % h["function"]
            call = "%s(input); \"ok\".to_string()" % h["check"]
        else:
            real = "format!(\"{:?}\", %s(input))" % h["function"]
            call = real
        per_source.setdefault(h["source"], dict(hfile=h["hfile"], tests=[]))["tests"].append("""
    #[test]
    fn verif_replay_case_%d() {
        let input: &[u8] = &[%s];
        println!("VERIF-REPLAY %d real-result {:?}", std::panic::catch_unwind(|| { %s }).unwrap_or("<panicked>".to_string()));
        let r = std::panic::catch_unwind(|| { %s });
        match r {
            Ok(s) => println!("VERIF-REPLAY %d agrees {}", s),
            Err(_) => println!("VERIF-REPLAY %d PANICKED"),
        }
    }
""" % (k, body, k, real, call, k, k))
    for src, v in per_source.items():
        with open(os.path.join(d, src), "a") as f:
            f.write("\n#[cfg(test)]\nmod verif_replay {\n    use super::*;\n" + shared_section(v["hfile"]) + "\n" + "".join(v["tests"]) + "}\n")
    e = _env(d)
    e["CARGO_TARGET_DIR"] = os.path.join(d, "target_native")
    p = subprocess.run(["cargo", "test", "--offline", "--lib", "verif_replay_case", "--", "--nocapture", "--test-threads", "1"],
                       cwd=d, env=e, capture_output=True, text=True, timeout=1800)
    out = p.stdout + "\n" + p.stderr
    res = []
    for k, c in enumerate(cases):
        m = re.search(r"VERIF-REPLAY %d (PANICKED|agrees .*)" % k, out)
        rr = re.search(r"VERIF-REPLAY %d real-result (.*)" % k, out)
        res.append(dict(harness=c["harness"], input=c["input"], ran=bool(m), confirmed=bool(m and m.group(1) == "PANICKED"),
                        real_result=(rr.group(1)[:400] if rr else None),
                        observed=(m.group(1)[:400] if m else out[-800:])))
    return res


def replay_file_cases(cases):
    """Re-run stored inputs against the current tree (./check --replay)."""
    d = make_scratch()
    try:
        return replay_native(d, cases)
    finally:
        shutil.rmtree(d, ignore_errors=True)


def run(names=None, jobs=6, timeout=900, replay=True, keep=False):
    tab = harness_table()
    names = sorted(tab) if not names else list(names)
    d = make_scratch()
    try:
        res, out, wall = run_harnesses(d, names, jobs=jobs, timeout=timeout)
        bad = [n for n, r in res.items() if r["status"] == "failed"]
        if bad:
            res2, out2, wall2 = run_harnesses(d, bad, timeout=timeout, playback=True)
            for n in bad:
                if res2[n].get("input") is not None:
                    res[n]["input"] = res2[n]["input"]
                if res2[n]["failed_checks"]:
                    res[n]["failed_checks"] = res2[n]["failed_checks"]
            out += "\n" + out2
            wall += wall2
        for n, r in res.items():
            r.update(function=tab[n]["function"], bound_bytes=tab[n]["bound"], kind=tab[n]["kind"])
        if replay:
            cases = [dict(harness=n, input=r["input"]) for n, r in sorted(res.items()) if r["status"] == "failed" and r["input"] is not None]
            if cases:
                for rr in replay_native(d, cases):
                    res[rr["harness"]]["replay"] = rr
        return dict(results=res, wall=round(wall, 1), raw_tail=out[-3000:])
    finally:
        if not keep:
            shutil.rmtree(d, ignore_errors=True)


if __name__ == "__main__":
    a = sys.argv[1:]
    jobs, timeout, names = 6, 900, []
    i = 0
    while i < len(a):
        if a[i] == "--jobs":
            jobs = int(a[i + 1]); i += 2
        elif a[i] == "--timeout":
            timeout = int(a[i + 1]); i += 2
        elif a[i] == "--all":
            i += 1
        else:
            names.append(a[i]); i += 1
    r = run(names or None, jobs=jobs, timeout=timeout)
    for n, v in sorted(r["results"].items()):
        print("%-34s %-8s %-6s <=%d bytes  %s%s" % (n, v["status"], v["kind"], v["bound_bytes"],
              ("%.1fs" % v["seconds"]) if v["seconds"] else "", ("  input=%r" % bytes(v["input"])) if v.get("input") is not None else ""))
        if v.get("replay"):
            print("      replay on the real code: %s; real result %s" % ("CONFIRMED" if v["replay"]["confirmed"] else "not confirmed", v["replay"]["real_result"]))
    print("wall %.1fs" % r["wall"])
