// Ghost vocabulary for a whole file patch (C02 levels, C03 splice, C04 rollback), written from the property statements.

pub open spec fn hunks_wf(hs: Seq<Hunk<&[u8]>>) -> bool {
    forall|i: int| 0 <= i < hs.len() ==> hunk_wf(#[trigger] hs[i])
}

/// total number of hunk lines (machine side condition: they are all slices of the patch text in memory)
pub open spec fn hunks_total(hs: Seq<Hunk<&[u8]>>, n: int) -> int
    decreases n
{
    if n <= 0 { 0 } else { hunks_total(hs, n - 1) + hs[n - 1].remove.content@.len() + hs[n - 1].add.content@.len() }
}

// ---------------------------------------------------------------- one hunk, all permitted fuzz levels (C02, C20)

/// some admissible position exists at level l that does not touch frozen lines
#[verifier::opaque]
pub open spec fn applies_at(h: Hunk<&[u8]>, d: PatchDirection, l: int, c: Seq<Seq<u8>>, deleted: bool, off: int, frozen: int) -> bool {
    !deleted && exists|p: int| #[trigger] placed_at(h, d, l, c, off, p) && p + v_pc(h, l) > frozen
}

pub open spec fn top_level(h: Hunk<&[u8]>, limit: int) -> int {
    smin(limit, smax(h.prefix_context as int, h.suffix_context as int))
}

/// "the lowest fuzz level admitting a position is the one used"; failed only if no level up to the limit admits one
pub open spec fn hunk_result(h: Hunk<&[u8]>, d: PatchDirection, limit: int, c: Seq<Seq<u8>>, deleted: bool, off: int, frozen: int,
                             r: HunkApplyReport) -> bool {
    match r {
        HunkApplyReport::Applied { fuzz, .. } => {
            &&& 0 <= fuzz <= top_level(h, limit)
            &&& try_result(h, d, fuzz as int, c, deleted, off, frozen, r)
            &&& forall|l: int| 0 <= l < fuzz ==> !#[trigger] applies_at(h, d, l, c, deleted, off, frozen)
        },
        HunkApplyReport::Failed(_) => {
            &&& try_result(h, d, top_level(h, limit), c, deleted, off, frozen, r)
            &&& forall|l: int| 0 <= l <= top_level(h, limit) ==> !#[trigger] applies_at(h, d, l, c, deleted, off, frozen)
        },
        HunkApplyReport::Skipped => false,
    }
}

/// report with the rollback line reset to the matched line (what the matching phase produced)
pub open spec fn norm(r: HunkApplyReport) -> HunkApplyReport {
    match r {
        HunkApplyReport::Applied { line, rollback_line, offset, line_count_diff, fuzz } =>
            HunkApplyReport::Applied { line, rollback_line: line, offset, line_count_diff, fuzz },
        _ => r,
    }
}

// ---------------------------------------------------------------- state threaded from hunk to hunk

pub open spec fn rep_core_start(h: Hunk<&[u8]>, r: HunkApplyReport) -> int {
    r->line + v_pc(h, r->fuzz as int)
}
pub open spec fn rep_core_end(h: Hunk<&[u8]>, d: PatchDirection, r: HunkApplyReport) -> int {
    r->line + v_old(h, d, r->fuzz as int).len() - v_sc(h, r->fuzz as int)
}

/// offset of the last applied hunk among the first n
pub open spec fn st_off(reports: Seq<HunkApplyReport>, n: int) -> int
    decreases n
{
    if n <= 0 { 0 } else {
        match reports[n - 1] { HunkApplyReport::Applied { offset, .. } => offset as int, _ => st_off(reports, n - 1) }
    }
}
/// one past the last line changed by the last applied hunk among the first n (-1: none)
pub open spec fn st_frozen(hs: Seq<Hunk<&[u8]>>, d: PatchDirection, reports: Seq<HunkApplyReport>, n: int) -> int
    decreases n
{
    if n <= 0 { -1 } else {
        match reports[n - 1] { HunkApplyReport::Applied { .. } => rep_core_end(hs[n - 1], d, reports[n - 1]), _ => st_frozen(hs, d, reports, n - 1) }
    }
}

pub open spec fn reports_normal(hs: Seq<Hunk<&[u8]>>, d: PatchDirection, limit: int, c: Seq<Seq<u8>>, deleted: bool,
                                reports: Seq<HunkApplyReport>, n: int) -> bool {
    forall|i: int| 0 <= i < n ==> hunk_result(hs[i], d, limit, c, deleted, st_off(reports, i), st_frozen(hs, d, reports, i), norm(#[trigger] reports[i]))
}

pub open spec fn reports_rollback(hs: Seq<Hunk<&[u8]>>, d: PatchDirection, prev: Seq<HunkApplyReport>, c: Seq<Seq<u8>>, deleted: bool,
                                  reports: Seq<HunkApplyReport>, n: int) -> bool {
    forall|i: int| 0 <= i < n ==> (match prev[i] {
        HunkApplyReport::Applied { fuzz, rollback_line, .. } =>
            rollback_result(hs[i], d, fuzz as int, c, deleted, rollback_line as int, norm(#[trigger] reports[i])),
        _ => reports[i] == HunkApplyReport::Skipped,
    })
}

// ---------------------------------------------------------------- C03: what the file must look like afterwards

/// everything before this original line has been emitted after the first n hunks
pub open spec fn sp_pos(hs: Seq<Hunk<&[u8]>>, d: PatchDirection, reports: Seq<HunkApplyReport>, n: int) -> int {
    smax(st_frozen(hs, d, reports, n), 0)
}

/// output for the original lines [0, sp_pos(n)): untouched lines kept, the changed lines of each applied hunk replaced
pub open spec fn sp_out(c: Seq<Seq<u8>>, hs: Seq<Hunk<&[u8]>>, d: PatchDirection, reports: Seq<HunkApplyReport>, n: int) -> Seq<Seq<u8>>
    decreases n
{
    if n <= 0 { Seq::empty() } else {
        match reports[n - 1] {
            HunkApplyReport::Applied { fuzz, .. } =>
                sp_out(c, hs, d, reports, n - 1)
                + c.subrange(sp_pos(hs, d, reports, n - 1), rep_core_start(hs[n - 1], reports[n - 1]))
                + deep(v_new_core(hs[n - 1], d, fuzz as int)),
            _ => sp_out(c, hs, d, reports, n - 1),
        }
    }
}

/// C03: the original with, for each applied hunk in order, its removed lines at the matched position replaced by
/// its added lines; every other line kept in order.
pub open spec fn splice_spec(c: Seq<Seq<u8>>, hs: Seq<Hunk<&[u8]>>, d: PatchDirection, reports: Seq<HunkApplyReport>) -> Seq<Seq<u8>> {
    sp_out(c, hs, d, reports, hs.len() as int) + c.subrange(sp_pos(hs, d, reports, hs.len() as int), c.len() as int)
}

/// how far positions after the first n hunks have moved
pub open spec fn sp_moff(c: Seq<Seq<u8>>, hs: Seq<Hunk<&[u8]>>, d: PatchDirection, reports: Seq<HunkApplyReport>, n: int) -> int {
    sp_out(c, hs, d, reports, n).len() - sp_pos(hs, d, reports, n)
}

/// the changed regions of the applied hunks lie inside the file, in increasing order, without overlap
pub open spec fn cores_ordered(clen: int, hs: Seq<Hunk<&[u8]>>, d: PatchDirection, reports: Seq<HunkApplyReport>, n: int) -> bool {
    forall|i: int| 0 <= i < n && (#[trigger] reports[i]) is Applied ==> {
        &&& sp_pos(hs, d, reports, i) <= rep_core_start(hs[i], reports[i])
        &&& rep_core_start(hs[i], reports[i]) <= rep_core_end(hs[i], d, reports[i])
        &&& rep_core_end(hs[i], d, reports[i]) <= clen
    }
}

pub open spec fn rollback_lines_ok(c: Seq<Seq<u8>>, hs: Seq<Hunk<&[u8]>>, d: PatchDirection, reports: Seq<HunkApplyReport>, n: int) -> bool {
    forall|i: int| 0 <= i < n && (#[trigger] reports[i]) is Applied ==>
        reports[i]->rollback_line == reports[i]->line + sp_moff(c, hs, d, reports, i)
}

pub open spec fn any_failed_spec(reports: Seq<HunkApplyReport>, n: int) -> bool
    decreases n
{
    n > 0 && (reports[n - 1] is Failed || any_failed_spec(reports, n - 1))
}

// ---------------------------------------------------------------- lemmas

/// the placement rule selects at most one position (forward wins ties => unique)
pub proof fn lemma_placed_unique(h: Hunk<&[u8]>, d: PatchDirection, f: int, c: Seq<Seq<u8>>, off: int, p: int, q: int)
    requires placed_at(h, d, f, c, off, p), placed_at(h, d, f, c, off, q)
    ensures p == q
{
    reveal(placed_at);
}

/// a level whose try did not apply admits no position
pub proof fn lemma_failed_not_applies(h: Hunk<&[u8]>, d: PatchDirection, l: int, c: Seq<Seq<u8>>, deleted: bool, off: int, frozen: int,
                                      r: HunkApplyReport)
    requires try_result(h, d, l, c, deleted, off, frozen, r), !(r is Applied)
    ensures !applies_at(h, d, l, c, deleted, off, frozen)
{
    reveal(applies_at);
    reveal(try_result);
    reveal(placed_at);
    reveal(no_place);
    if applies_at(h, d, l, c, deleted, off, frozen) {
        let p = choose|p: int| #[trigger] placed_at(h, d, l, c, off, p) && p + v_pc(h, l) > frozen;
        match r {
            HunkApplyReport::Failed(HunkApplyFailureReason::MisorderedHunks) => {
                let q = choose|q: int| #[trigger] placed_at(h, d, l, c, off, q) && q + v_pc(h, l) <= frozen;
                lemma_placed_unique(h, d, l, c, off, p, q);
            },
            _ => {},
        }
    }
}

pub proof fn lemma_try_not_skipped(h: Hunk<&[u8]>, d: PatchDirection, l: int, c: Seq<Seq<u8>>, deleted: bool, off: int, frozen: int, r: HunkApplyReport)
    requires try_result(h, d, l, c, deleted, off, frozen, r)
    ensures !(r is Skipped)
{
    reveal(try_result);
}

/// threaded state depends only on the reports before n
pub proof fn lemma_state_prefix(hs: Seq<Hunk<&[u8]>>, d: PatchDirection, r1: Seq<HunkApplyReport>, r2: Seq<HunkApplyReport>, n: int)
    requires
        0 <= n <= r1.len(), n <= r2.len(),
        forall|j: int| 0 <= j < n ==> r1[j] == r2[j],
    ensures
        st_off(r1, n) == st_off(r2, n),
        st_frozen(hs, d, r1, n) == st_frozen(hs, d, r2, n),
        any_failed_spec(r1, n) == any_failed_spec(r2, n),
    decreases n
{
    if n > 0 {
        lemma_state_prefix(hs, d, r1, r2, n - 1);
    }
}

pub proof fn lemma_deep_add(a: Seq<&[u8]>, b: Seq<&[u8]>)
    ensures deep(a + b) == deep(a) + deep(b)
{
    assert(deep(a + b) =~= deep(a) + deep(b));
}
pub proof fn lemma_deep_subrange(a: Seq<&[u8]>, i: int, j: int)
    requires 0 <= i <= j <= a.len()
    ensures deep(a.subrange(i, j)) == deep(a).subrange(i, j)
{
    assert(deep(a.subrange(i, j)) =~= deep(a).subrange(i, j));
}

/// what rollback mode needs from the report it is given (an invariant of reports produced by apply, see C04 lemmas):
/// one entry per hunk, recorded lines in machine range, and the changed regions it is going to restore in increasing order
pub open spec fn rollback_pre(hs: Seq<Hunk<&[u8]>>, d: PatchDirection, prev: Seq<HunkApplyReport>, clen: int) -> bool {
    &&& prev.len() == hs.len()
    &&& forall|i: int| 0 <= i < prev.len() && (#[trigger] prev[i]) is Applied ==> -BIG() < prev[i]->rollback_line < 2 * BIG()
    &&& forall|i: int, j: int| 0 <= i < j < prev.len() && (#[trigger] prev[i]) is Applied && (#[trigger] prev[j]) is Applied ==>
            prev[i]->rollback_line + v_old(hs[i], d, prev[i]->fuzz as int).len() - v_sc(hs[i], prev[i]->fuzz as int)
            <= prev[j]->rollback_line + v_pc(hs[j], prev[j]->fuzz as int)
}

/// every applied report carries exactly the data of its placement (line, fuzz) - nothing else
pub open spec fn reports_shape(hs: Seq<Hunk<&[u8]>>, d: PatchDirection, reports: Seq<HunkApplyReport>, n: int) -> bool {
    forall|i: int| 0 <= i < n && (#[trigger] reports[i]) is Applied ==>
        norm(reports[i]) == applied_report(hs[i], d, reports[i]->fuzz as int, reports[i]->line as int)
        && -BIG() < reports[i]->line < BIG()
}

/// what the splice phase does to a report: only the rollback line changes
pub open spec fn with_rollback_line(r: HunkApplyReport, moff: int) -> HunkApplyReport {
    match r {
        HunkApplyReport::Applied { line, rollback_line, offset, line_count_diff, fuzz } =>
            HunkApplyReport::Applied { line, rollback_line: (line + moff) as isize, offset, line_count_diff, fuzz },
        _ => r,
    }
}

pub proof fn lemma_total_mono(hs: Seq<Hunk<&[u8]>>, k: int, n: int)
    requires 0 <= k <= n
    ensures 0 <= hunks_total(hs, k) <= hunks_total(hs, n)
    decreases n
{
    if k < n { lemma_total_mono(hs, k, n - 1); }
    else if k > 0 { lemma_total_mono(hs, k - 1, k - 1); }
}

pub proof fn lemma_norm_state(c: Seq<Seq<u8>>, hs: Seq<Hunk<&[u8]>>, d: PatchDirection, r1: Seq<HunkApplyReport>, r2: Seq<HunkApplyReport>, n: int)
    requires
        0 <= n <= r1.len(), n <= r2.len(),
        forall|j: int| 0 <= j < n ==> norm(#[trigger] r1[j]) == norm(r2[j]),
    ensures
        st_off(r1, n) == st_off(r2, n),
        st_frozen(hs, d, r1, n) == st_frozen(hs, d, r2, n),
        sp_out(c, hs, d, r1, n) == sp_out(c, hs, d, r2, n),
        any_failed_spec(r1, n) == any_failed_spec(r2, n),
    decreases n
{
    if n > 0 {
        lemma_norm_state(c, hs, d, r1, r2, n - 1);
        assert(norm(r1[n - 1]) == norm(r2[n - 1]));
    }
}

/// the emitted prefix is never longer than what was consumed plus what the hunks add
pub proof fn lemma_out_len(c: Seq<Seq<u8>>, hs: Seq<Hunk<&[u8]>>, d: PatchDirection, reports: Seq<HunkApplyReport>, n: int)
    requires
        0 <= n <= hs.len(), n <= reports.len(), hunks_wf(hs),
        cores_ordered(c.len() as int, hs, d, reports, n),
    ensures
        0 <= sp_pos(hs, d, reports, n) <= c.len(),
        sp_out(c, hs, d, reports, n).len() <= sp_pos(hs, d, reports, n) + hunks_total(hs, n),
        sp_out(c, hs, d, reports, n).len() + c.len() - sp_pos(hs, d, reports, n) >= 0,
    decreases n
{
    if n > 0 {
        lemma_out_len(c, hs, d, reports, n - 1);
        assert(hunk_wf(hs[n - 1]));
        if reports[n - 1] is Applied {
            assert(sp_pos(hs, d, reports, n - 1) <= rep_core_start(hs[n - 1], reports[n - 1]));
        }
    }
}

// ---------------------------------------------------------------- loop invariants as predicates + step lemmas

/// invariant of the matching phase after i hunks
#[verifier::opaque]
pub open spec fn match_inv(hs: Seq<Hunk<&[u8]>>, d: PatchDirection, limit: int, c: Seq<Seq<u8>>, deleted: bool, normal: bool,
                           prev: Seq<HunkApplyReport>, reports: Seq<HunkApplyReport>, i: int) -> bool {
    &&& reports.len() == i
    &&& forall|j: int| 0 <= j < i ==> #[trigger] reports[j] == norm(reports[j])
    &&& cores_ordered(c.len() as int, hs, d, reports, i)
    &&& reports_shape(hs, d, reports, i)
    &&& normal ==> reports_normal(hs, d, limit, c, deleted, reports, i)
    &&& !normal ==> reports_rollback(hs, d, prev, c, deleted, reports, i)
}

/// what the matching phase knows about the report of hunk i before pushing it
pub open spec fn match_step_pre(hs: Seq<Hunk<&[u8]>>, d: PatchDirection, limit: int, c: Seq<Seq<u8>>, deleted: bool, normal: bool,
                                prev: Seq<HunkApplyReport>, reports: Seq<HunkApplyReport>, i: int, r: HunkApplyReport) -> bool {
    &&& r == norm(r)
    &&& normal ==> hunk_result(hs[i], d, limit, c, deleted, st_off(reports, i), st_frozen(hs, d, reports, i), r)
    &&& !normal ==> (match prev[i] {
            HunkApplyReport::Applied { fuzz, rollback_line, .. } => rollback_result(hs[i], d, fuzz as int, c, deleted, rollback_line as int, r),
            _ => r == HunkApplyReport::Skipped,
        })
}

pub proof fn lemma_frozen_witness(hs: Seq<Hunk<&[u8]>>, d: PatchDirection, reports: Seq<HunkApplyReport>, n: int)
    requires 0 <= n <= reports.len()
    ensures st_frozen(hs, d, reports, n) == -1
        || exists|j: int| 0 <= j < n && (#[trigger] reports[j]) is Applied && st_frozen(hs, d, reports, n) == rep_core_end(hs[j], d, reports[j])
    decreases n
{
    if n > 0 {
        if reports[n - 1] is Applied {
            assert(st_frozen(hs, d, reports, n) == rep_core_end(hs[n - 1], d, reports[n - 1]));
        } else {
            lemma_frozen_witness(hs, d, reports, n - 1);
        }
    }
}

pub proof fn lemma_match_step(hs: Seq<Hunk<&[u8]>>, d: PatchDirection, limit: int, c: Seq<Seq<u8>>, deleted: bool, normal: bool,
                              prev: Seq<HunkApplyReport>, reports: Seq<HunkApplyReport>, i: int, r: HunkApplyReport)
    requires
        match_inv(hs, d, limit, c, deleted, normal, prev, reports, i),
        0 <= i < hs.len(), hunks_wf(hs), c.len() < BIG(),
        !normal ==> rollback_pre(hs, d, prev, c.len() as int),
        match_step_pre(hs, d, limit, c, deleted, normal, prev, reports, i, r),
    ensures
        match_inv(hs, d, limit, c, deleted, normal, prev, reports.push(r), i + 1),
        st_off(reports.push(r), i + 1) == (if r is Applied { r->offset as int } else { st_off(reports, i) }),
        st_frozen(hs, d, reports.push(r), i + 1) == (if r is Applied { rep_core_end(hs[i], d, r) } else { st_frozen(hs, d, reports, i) }),
        any_failed_spec(reports.push(r), i + 1) == (any_failed_spec(reports, i) || r is Failed),
        normal && r is Applied ==> -LBIG() < r->offset < BIG() && -1 <= rep_core_end(hs[i], d, r) <= c.len(),
{
    reveal(match_inv);
    let r2 = reports.push(r);
    lemma_state_prefix(hs, d, reports, r2, i);
    assert(hunk_wf(hs[i]));
    assert forall|j: int| 0 <= j < i + 1 implies #[trigger] r2[j] == norm(r2[j]) by {
        if j < i { assert(r2[j] == reports[j]); }
    }
    // shape + ordering of the new entry
    if r is Applied {
        if normal {
            reveal(try_result);
            reveal(placed_at);
            assert(try_result(hs[i], d, r->fuzz as int, c, deleted, st_off(reports, i), st_frozen(hs, d, reports, i), r));
            assert(r == applied_report(hs[i], d, r->fuzz as int, r->line as int));
            assert(matches_at(deep(v_old(hs[i], d, r->fuzz as int)), c, r->line as int));
        } else {
            lemma_frozen_witness(hs, d, reports, i);
            assert(reports_rollback(hs, d, prev, c, deleted, reports, i));
            if st_frozen(hs, d, reports, i) != -1 {
                let j = choose|j: int| 0 <= j < i && (#[trigger] reports[j]) is Applied && st_frozen(hs, d, reports, i) == rep_core_end(hs[j], d, reports[j]);
                assert(prev[j] is Applied);
                assert(norm(reports[j]) == reports[j]);
                assert(prev[i] is Applied);
            }
        }
    }
    assert forall|j: int| 0 <= j < i + 1 && (#[trigger] r2[j]) is Applied implies
        norm(r2[j]) == applied_report(hs[j], d, r2[j]->fuzz as int, r2[j]->line as int) && -BIG() < r2[j]->line < BIG() by {
        if j < i { assert(r2[j] == reports[j]); }
    }
    assert forall|j: int| 0 <= j < i + 1 && (#[trigger] r2[j]) is Applied implies {
        &&& sp_pos(hs, d, r2, j) <= rep_core_start(hs[j], r2[j])
        &&& rep_core_start(hs[j], r2[j]) <= rep_core_end(hs[j], d, r2[j])
        &&& rep_core_end(hs[j], d, r2[j]) <= c.len() } by {
        lemma_state_prefix(hs, d, reports, r2, j);
        if j < i { assert(r2[j] == reports[j]); }
    }
    if normal {
        assert forall|j: int| 0 <= j < i + 1 implies hunk_result(hs[j], d, limit, c, deleted, st_off(r2, j), st_frozen(hs, d, r2, j), norm(#[trigger] r2[j])) by {
            lemma_state_prefix(hs, d, reports, r2, j);
            if j < i { assert(r2[j] == reports[j]); }
        }
    } else {
        assert forall|j: int| 0 <= j < i + 1 implies (match prev[j] {
            HunkApplyReport::Applied { fuzz, rollback_line, .. } =>
                rollback_result(hs[j], d, fuzz as int, c, deleted, rollback_line as int, norm(#[trigger] r2[j])),
            _ => r2[j] == HunkApplyReport::Skipped }) by {
            if j < i { assert(r2[j] == reports[j]); }
        }
    }
}

pub proof fn lemma_match_init(hs: Seq<Hunk<&[u8]>>, d: PatchDirection, limit: int, c: Seq<Seq<u8>>, deleted: bool, normal: bool, prev: Seq<HunkApplyReport>)
    ensures match_inv(hs, d, limit, c, deleted, normal, prev, Seq::<HunkApplyReport>::empty(), 0)
{
    reveal(match_inv);
}

/// invariant of the splice phase after k hunks: `content` is the emitted prefix followed by the untouched rest
#[verifier::opaque]
pub open spec fn splice_inv(c: Seq<Seq<u8>>, hs: Seq<Hunk<&[u8]>>, d: PatchDirection, reps: Seq<HunkApplyReport>, k: int,
                            content: Seq<Seq<u8>>) -> bool {
    content == sp_out(c, hs, d, reps, k) + c.subrange(sp_pos(hs, d, reps, k), c.len() as int)
}

pub open spec fn splice_static(c: Seq<Seq<u8>>, hs: Seq<Hunk<&[u8]>>, d: PatchDirection, reps: Seq<HunkApplyReport>) -> bool {
    &&& reps.len() == hs.len()
    &&& hunks_wf(hs)
    &&& hs.len() < BIG()
    &&& hunks_total(hs, hs.len() as int) < BIG()
    &&& c.len() < BIG()
    &&& cores_ordered(c.len() as int, hs, d, reps, hs.len() as int)
    &&& reports_shape(hs, d, reps, hs.len() as int)
}

pub proof fn lemma_splice_init(c: Seq<Seq<u8>>, hs: Seq<Hunk<&[u8]>>, d: PatchDirection, reps: Seq<HunkApplyReport>)
    ensures splice_inv(c, hs, d, reps, 0, c), sp_moff(c, hs, d, reps, 0) == 0
{
    reveal(splice_inv);
    assert(sp_out(c, hs, d, reps, 0) + c.subrange(0, c.len() as int) =~= c);
}

pub proof fn lemma_splice_step(c: Seq<Seq<u8>>, hs: Seq<Hunk<&[u8]>>, d: PatchDirection, reps: Seq<HunkApplyReport>, k: int,
                               content: Seq<Seq<u8>>, moff: int)
    requires
        splice_static(c, hs, d, reps),
        0 <= k < hs.len(),
        splice_inv(c, hs, d, reps, k, content),
        moff == sp_moff(c, hs, d, reps, k),
    ensures
        -BIG() < moff < BIG(),
        !(reps[k] is Applied) ==> splice_inv(c, hs, d, reps, k + 1, content) && sp_moff(c, hs, d, reps, k + 1) == moff,
        reps[k] is Applied ==> ({
            let h = hs[k];
            let f = reps[k]->fuzz as int;
            let line = reps[k]->line as int;
            let start = line + moff + v_pc(h, f);
            let end = start + v_old(h, d, f).len() - v_pc(h, f) - v_sc(h, f);
            &&& 0 <= start <= end <= content.len()
            &&& -BIG() < line + moff < 2 * BIG()
            &&& v_pc(h, f) + v_sc(h, f) <= v_old(h, d, f).len()
            &&& v_pc(h, f) + v_sc(h, f) <= v_new(h, d, f).len()
            &&& reps[k]->line_count_diff == v_new(h, d, f).len() - v_old(h, d, f).len()
            &&& -BIG() < moff + reps[k]->line_count_diff < BIG()
            &&& splice_inv(c, hs, d, reps, k + 1,
                           content.subrange(0, start) + deep(v_new_core(h, d, f)) + content.subrange(end, content.len() as int))
            &&& sp_moff(c, hs, d, reps, k + 1) == moff + reps[k]->line_count_diff
        }),
{
    reveal(splice_inv);
    lemma_out_len(c, hs, d, reps, k);
    lemma_out_len(c, hs, d, reps, k + 1);
    lemma_total_mono(hs, k, hs.len() as int);
    lemma_total_mono(hs, k + 1, hs.len() as int);
    assert(hunk_wf(hs[k]));
    if reps[k] is Applied {
        let h = hs[k];
        let f = reps[k]->fuzz as int;
        let line = reps[k]->line as int;
        let outk = sp_out(c, hs, d, reps, k);
        let posk = sp_pos(hs, d, reps, k);
        let cs = rep_core_start(h, reps[k]);
        let ce = rep_core_end(h, d, reps[k]);
        let start = line + moff + v_pc(h, f);
        let end = start + v_old(h, d, f).len() - v_pc(h, f) - v_sc(h, f);
        assert(posk <= cs <= ce <= c.len());
        assert(start == outk.len() + (cs - posk));
        assert(end == outk.len() + (ce - posk));
        assert(content.subrange(0, start) =~= outk + c.subrange(posk, cs));
        assert(content.subrange(end, content.len() as int) =~= c.subrange(ce, c.len() as int));
        assert(norm(reps[k]) == applied_report(h, d, f, line));
        assert(sp_pos(hs, d, reps, k + 1) == ce);
        let content2 = content.subrange(0, start) + deep(v_new_core(h, d, f)) + content.subrange(end, content.len() as int);
        assert(sp_out(c, hs, d, reps, k + 1) == outk + c.subrange(posk, cs) + deep(v_new_core(h, d, f)));
        assert(content2 =~= sp_out(c, hs, d, reps, k + 1) + c.subrange(ce, c.len() as int));
        assert(moff + reps[k]->line_count_diff == sp_moff(c, hs, d, reps, k + 1));
    }
}

pub proof fn lemma_match_inv_unfold(hs: Seq<Hunk<&[u8]>>, d: PatchDirection, limit: int, c: Seq<Seq<u8>>, deleted: bool, normal: bool,
                                    prev: Seq<HunkApplyReport>, reps: Seq<HunkApplyReport>, n: int)
    requires match_inv(hs, d, limit, c, deleted, normal, prev, reps, n)
    ensures
        reps.len() == n,
        forall|j: int| 0 <= j < n ==> #[trigger] reps[j] == norm(reps[j]),
        cores_ordered(c.len() as int, hs, d, reps, n),
        reports_shape(hs, d, reps, n),
        normal ==> reports_normal(hs, d, limit, c, deleted, reps, n),
        !normal ==> reports_rollback(hs, d, prev, c, deleted, reps, n),
{
    reveal(match_inv);
}

/// the reports after the splice phase differ from those of the matching phase only in the rollback line
pub open spec fn same_but_rollback_line(reps: Seq<HunkApplyReport>, fin: Seq<HunkApplyReport>, n: int) -> bool {
    &&& reps.len() == n && fin.len() == n
    &&& forall|j: int| 0 <= j < n ==> norm(#[trigger] fin[j]) == norm(reps[j])
}

pub proof fn lemma_finish_normal(hs: Seq<Hunk<&[u8]>>, d: PatchDirection, limit: int, c: Seq<Seq<u8>>, deleted: bool,
                                 reps: Seq<HunkApplyReport>, fin: Seq<HunkApplyReport>)
    requires
        same_but_rollback_line(reps, fin, hs.len() as int),
        reports_normal(hs, d, limit, c, deleted, reps, hs.len() as int),
    ensures
        reports_normal(hs, d, limit, c, deleted, fin, hs.len() as int),
{
    let n = hs.len() as int;
    assert forall|j: int| 0 <= j < n implies hunk_result(hs[j], d, limit, c, deleted, st_off(fin, j), st_frozen(hs, d, fin, j), norm(#[trigger] fin[j])) by {
        assert forall|m: int| 0 <= m < j implies norm(#[trigger] reps[m]) == norm(fin[m]) by { assert(norm(fin[m]) == norm(reps[m])); }
        lemma_norm_state(c, hs, d, reps, fin, j);
        assert(norm(fin[j]) == norm(reps[j]));
        assert(hunk_result(hs[j], d, limit, c, deleted, st_off(reps, j), st_frozen(hs, d, reps, j), norm(reps[j])));
    }
}

pub proof fn lemma_finish_rollback(hs: Seq<Hunk<&[u8]>>, d: PatchDirection, c: Seq<Seq<u8>>, deleted: bool, prev: Seq<HunkApplyReport>,
                                   reps: Seq<HunkApplyReport>, fin: Seq<HunkApplyReport>)
    requires
        same_but_rollback_line(reps, fin, hs.len() as int),
        reports_rollback(hs, d, prev, c, deleted, reps, hs.len() as int),
    ensures
        reports_rollback(hs, d, prev, c, deleted, fin, hs.len() as int),
{
    let n = hs.len() as int;
    assert forall|j: int| 0 <= j < n implies (match prev[j] {
        HunkApplyReport::Applied { fuzz, rollback_line, .. } =>
            rollback_result(hs[j], d, fuzz as int, c, deleted, rollback_line as int, norm(#[trigger] fin[j])),
        _ => fin[j] == HunkApplyReport::Skipped }) by {
        assert(norm(fin[j]) == norm(reps[j]));
        let _ = reps[j];
    }
}

/// ordering and shape of the applied hunks depend only on line and fuzz, which the splice phase does not touch
pub proof fn lemma_finish_shape(c: Seq<Seq<u8>>, hs: Seq<Hunk<&[u8]>>, d: PatchDirection, reps: Seq<HunkApplyReport>, fin: Seq<HunkApplyReport>)
    requires
        same_but_rollback_line(reps, fin, hs.len() as int),
        cores_ordered(c.len() as int, hs, d, reps, hs.len() as int),
        reports_shape(hs, d, reps, hs.len() as int),
    ensures
        cores_ordered(c.len() as int, hs, d, fin, hs.len() as int),
        reports_shape(hs, d, fin, hs.len() as int),
{
    let n = hs.len() as int;
    assert forall|i: int| 0 <= i < n && (#[trigger] fin[i]) is Applied implies {
        &&& sp_pos(hs, d, fin, i) <= rep_core_start(hs[i], fin[i])
        &&& rep_core_start(hs[i], fin[i]) <= rep_core_end(hs[i], d, fin[i])
        &&& rep_core_end(hs[i], d, fin[i]) <= c.len() } by {
        assert forall|m: int| 0 <= m < i implies norm(#[trigger] reps[m]) == norm(fin[m]) by { assert(norm(fin[m]) == norm(reps[m])); }
        lemma_norm_state(c, hs, d, reps, fin, i);
        assert(norm(fin[i]) == norm(reps[i]));
        assert(reps[i] is Applied);
    }
    assert forall|i: int| 0 <= i < n && (#[trigger] fin[i]) is Applied implies
        norm(fin[i]) == applied_report(hs[i], d, fin[i]->fuzz as int, fin[i]->line as int) && -BIG() < fin[i]->line < BIG() by {
        assert(norm(fin[i]) == norm(reps[i]));
        assert(reps[i] is Applied);
    }
}

pub proof fn lemma_finish_content(c: Seq<Seq<u8>>, hs: Seq<Hunk<&[u8]>>, d: PatchDirection, reps: Seq<HunkApplyReport>, fin: Seq<HunkApplyReport>,
                                  content: Seq<Seq<u8>>)
    requires
        same_but_rollback_line(reps, fin, hs.len() as int),
        splice_inv(c, hs, d, reps, hs.len() as int, content),
    ensures
        content == splice_spec(c, hs, d, fin),
        any_failed_spec(fin, hs.len() as int) == any_failed_spec(reps, hs.len() as int),
{
    reveal(splice_inv);
    let n = hs.len() as int;
    assert forall|m: int| 0 <= m < n implies norm(#[trigger] reps[m]) == norm(fin[m]) by { assert(norm(fin[m]) == norm(reps[m])); }
    lemma_norm_state(c, hs, d, reps, fin, n);
}

pub proof fn lemma_finish_rollback_lines(c: Seq<Seq<u8>>, hs: Seq<Hunk<&[u8]>>, d: PatchDirection, reps: Seq<HunkApplyReport>, fin: Seq<HunkApplyReport>)
    requires
        same_but_rollback_line(reps, fin, hs.len() as int),
        forall|j: int| 0 <= j < hs.len() && (#[trigger] fin[j]) is Applied ==> fin[j]->rollback_line == fin[j]->line + sp_moff(c, hs, d, reps, j),
    ensures
        rollback_lines_ok(c, hs, d, fin, hs.len() as int),
{
    let n = hs.len() as int;
    assert forall|j: int| 0 <= j < n && (#[trigger] fin[j]) is Applied implies
        fin[j]->rollback_line == fin[j]->line + sp_moff(c, hs, d, fin, j) by {
        assert forall|m: int| 0 <= m < j implies norm(#[trigger] reps[m]) == norm(fin[m]) by { assert(norm(fin[m]) == norm(reps[m])); }
        lemma_norm_state(c, hs, d, reps, fin, j);
    }
}

pub proof fn lemma_cores_prefix(c: Seq<Seq<u8>>, hs: Seq<Hunk<&[u8]>>, d: PatchDirection, reps: Seq<HunkApplyReport>, j: int, n: int)
    requires 0 <= j <= n, cores_ordered(c.len() as int, hs, d, reps, n)
    ensures cores_ordered(c.len() as int, hs, d, reps, j)
{
}

// ---------------------------------------------------------------- C03's own share of the matching phase (normal mode)
// C03 ("changes exactly the lines its hunks mark") needs from the matching phase only that every applied report is the
// report of a real match whose changed region lies BEYOND the changed regions of the hunks applied before it.  It does
// not need the frozen line to be exact (a larger one refuses more, which is C02's business), nor the choice of level or
// of the nearest match.  The chain below therefore asks `frozen >= st_frozen`, never equality.

/// a report that is sound for hunk h on file c beyond line `frozen`: it is the report of a real match there
pub open spec fn sound_at(h: Hunk<&[u8]>, d: PatchDirection, c: Seq<Seq<u8>>, frozen: int, r: HunkApplyReport) -> bool {
    r matches HunkApplyReport::Applied { line, fuzz, .. } ==> {
        &&& matches_at(deep(v_old(h, d, fuzz as int)), c, line as int)
        &&& line + v_pc(h, fuzz as int) > frozen
        &&& r == applied_report(h, d, fuzz as int, line as int)
    }
}

/// invariant of the matching phase after i hunks, C03's share: report shapes and order of the changed regions
#[verifier::opaque]
pub open spec fn order_inv(hs: Seq<Hunk<&[u8]>>, d: PatchDirection, c: Seq<Seq<u8>>, reports: Seq<HunkApplyReport>, i: int) -> bool {
    &&& reports.len() == i
    &&& forall|j: int| 0 <= j < i ==> #[trigger] reports[j] == norm(reports[j])
    &&& cores_ordered(c.len() as int, hs, d, reports, i)
    &&& reports_shape(hs, d, reports, i)
}

pub proof fn lemma_order_init(hs: Seq<Hunk<&[u8]>>, d: PatchDirection, c: Seq<Seq<u8>>)
    ensures order_inv(hs, d, c, Seq::<HunkApplyReport>::empty(), 0)
{
    reveal(order_inv);
}

pub proof fn lemma_order_step(hs: Seq<Hunk<&[u8]>>, d: PatchDirection, c: Seq<Seq<u8>>, reports: Seq<HunkApplyReport>, i: int,
                              r: HunkApplyReport, frozen: int)
    requires
        order_inv(hs, d, c, reports, i),
        0 <= i < hs.len(), hunks_wf(hs), c.len() < BIG(),
        r == norm(r),
        sound_at(hs[i], d, c, frozen, r),
        frozen >= st_frozen(hs, d, reports, i),
    ensures
        order_inv(hs, d, c, reports.push(r), i + 1),
        st_frozen(hs, d, reports.push(r), i + 1) == (if r is Applied { rep_core_end(hs[i], d, r) } else { st_frozen(hs, d, reports, i) }),
        r is Applied ==> st_frozen(hs, d, reports, i) < rep_core_end(hs[i], d, r) <= c.len(),
        any_failed_spec(reports.push(r), i + 1) == (any_failed_spec(reports, i) || r is Failed),
{
    reveal(order_inv);
    let r2 = reports.push(r);
    lemma_state_prefix(hs, d, reports, r2, i);
    assert(hunk_wf(hs[i]));
    assert forall|j: int| 0 <= j < i + 1 implies #[trigger] r2[j] == norm(r2[j]) by {
        if j < i { assert(r2[j] == reports[j]); }
    }
    assert forall|j: int| 0 <= j < i + 1 && (#[trigger] r2[j]) is Applied implies
        norm(r2[j]) == applied_report(hs[j], d, r2[j]->fuzz as int, r2[j]->line as int) && -BIG() < r2[j]->line < BIG() by {
        if j < i { assert(r2[j] == reports[j]); }
    }
    assert forall|j: int| 0 <= j < i + 1 && (#[trigger] r2[j]) is Applied implies {
        &&& sp_pos(hs, d, r2, j) <= rep_core_start(hs[j], r2[j])
        &&& rep_core_start(hs[j], r2[j]) <= rep_core_end(hs[j], d, r2[j])
        &&& rep_core_end(hs[j], d, r2[j]) <= c.len() } by {
        lemma_state_prefix(hs, d, reports, r2, j);
        if j < i { assert(r2[j] == reports[j]); }
    }
}

pub proof fn lemma_order_unfold(hs: Seq<Hunk<&[u8]>>, d: PatchDirection, c: Seq<Seq<u8>>, reps: Seq<HunkApplyReport>, n: int)
    requires order_inv(hs, d, c, reps, n)
    ensures
        reps.len() == n,
        forall|j: int| 0 <= j < n ==> #[trigger] reps[j] == norm(reps[j]),
        cores_ordered(c.len() as int, hs, d, reps, n),
        reports_shape(hs, d, reps, n),
{
    reveal(order_inv);
}
