// C01 (modifications, line level): a unified diff pushed onto its own old file applies every hunk at its stated line
// with offset 0 and fuzz 0, for every fuzz limit.  Spec-level lemmas over the contract of apply_modify.

/// the report "applied exactly where the header says, without fuzz"
pub open spec fn stated_report(h: Hunk<&[u8]>, d: PatchDirection) -> HunkApplyReport {
    applied_report(h, d, 0, old_start(h, d))
}

/// hs, read in direction d, is a unified diff whose old file is x:
/// (S1) every old side stands in x at its stated line; (S2) the hunks are in order and do not overlap;
/// (S3) between the changed regions of consecutive hunks there is at least one unchanged line (else diff emits one
/// hunk); (S4) a hunk with less trailing than leading context ends at the end of x (its trailing context was cut by
/// EOF) - all true of the output of diff -U k for every k >= 0.
#[verifier::opaque]
pub open spec fn diff_script(x: Seq<Seq<u8>>, hs: Seq<Hunk<&[u8]>>, d: PatchDirection) -> bool {
    &&& hunks_wf(hs)
    &&& forall|i: int| 0 <= i < hs.len() ==> matches_at(deep(old_side(#[trigger] hs[i], d)), x, old_start(hs[i], d))
    &&& forall|i: int| 0 <= i < hs.len() - 1 ==>
            old_start(#[trigger] hs[i], d) + old_side(hs[i], d).len() <= old_start(hs[i + 1], d)
    &&& forall|i: int| 0 <= i < hs.len() - 1 ==>
            old_start(#[trigger] hs[i], d) + old_side(hs[i], d).len() - hs[i].suffix_context
            < old_start(hs[i + 1], d) + hs[i + 1].prefix_context
    &&& forall|i: int| 0 <= i < hs.len() && (#[trigger] hs[i]).prefix_context > hs[i].suffix_context ==>
            old_start(hs[i], d) + old_side(hs[i], d).len() == x.len()
}

pub proof fn lemma_view_fuzz0(h: Hunk<&[u8]>, d: PatchDirection)
    requires hunk_wf(h)
    ensures
        v_old(h, d, 0) == old_side(h, d), v_new(h, d, 0) == new_side(h, d),
        v_pc(h, 0) == h.prefix_context, v_sc(h, 0) == h.suffix_context,
        top_level(h, 0) == 0,
{
    assert(v_old(h, d, 0) =~= old_side(h, d));
    assert(v_new(h, d, 0) =~= new_side(h, d));
}

/// one hunk: if its old side stands at the stated line beyond the frozen line (and, when anchored to the end, the
/// stated line is the anchor), then under ANY limit the report is the stated one
pub proof fn lemma_exact_hunk(h: Hunk<&[u8]>, d: PatchDirection, limit: int, x: Seq<Seq<u8>>, frozen: int, r: HunkApplyReport)
    requires
        0 <= limit, hunk_wf(h),
        matches_at(deep(old_side(h, d)), x, old_start(h, d)),
        old_start(h, d) + h.prefix_context > frozen,
        h.prefix_context > h.suffix_context ==> old_start(h, d) + old_side(h, d).len() == x.len(),
        hunk_result(h, d, limit, x, false, 0, frozen, r),
        r == norm(r),
    ensures
        r == stated_report(h, d),
{
    lemma_view_fuzz0(h, d);
    let p = old_start(h, d);
    // level 0 admits the stated line
    assert(placed_at(h, d, 0, x, 0, p)) by {
        reveal(placed_at);
        let needle = deep(v_old(h, d, 0));
        assert(guess(h, d, 0, x.len() as int, 0) == p);
        assert(nearest(needle, x, p, p));
    }
    assert(applies_at(h, d, 0, x, false, 0, frozen)) by { reveal(applies_at); }
    match r {
        HunkApplyReport::Applied { .. } => {
            assert(r->fuzz == 0);
            reveal(try_result);
            lemma_placed_unique(h, d, 0, x, 0, p, r->line as int);
        },
        HunkApplyReport::Failed(_) => {
            assert(0 <= top_level(h, limit));
            assert(false);     // level 0 is admissible, so the hunk cannot be reported failed
        },
        HunkApplyReport::Skipped => {},
    }
}

/// what diff_script says about hunk i (and its predecessor)
pub proof fn lemma_diff_script_at(x: Seq<Seq<u8>>, hs: Seq<Hunk<&[u8]>>, d: PatchDirection, i: int)
    requires diff_script(x, hs, d), 0 <= i < hs.len()
    ensures
        hunk_wf(hs[i]),
        matches_at(deep(old_side(hs[i], d)), x, old_start(hs[i], d)),
        hs[i].prefix_context > hs[i].suffix_context ==> old_start(hs[i], d) + old_side(hs[i], d).len() == x.len(),
        i > 0 ==> hunk_wf(hs[i - 1]) && old_start(hs[i - 1], d) + old_side(hs[i - 1], d).len() - hs[i - 1].suffix_context
                  < old_start(hs[i], d) + hs[i].prefix_context,
{
    reveal(diff_script);
    if i > 0 { let _ = hs[i - 1]; }
}

pub proof fn lemma_reports_normal_at(hs: Seq<Hunk<&[u8]>>, d: PatchDirection, limit: int, c: Seq<Seq<u8>>, deleted: bool,
                                     reps: Seq<HunkApplyReport>, n: int, i: int)
    requires reports_normal(hs, d, limit, c, deleted, reps, n), 0 <= i < n
    ensures hunk_result(hs[i], d, limit, c, deleted, st_off(reps, i), st_frozen(hs, d, reps, i), norm(reps[i]))
{
    let _ = reps[i];
}

/// threaded state after a hunk whose report is the stated one
pub proof fn lemma_state_after_stated(hs: Seq<Hunk<&[u8]>>, d: PatchDirection, reps: Seq<HunkApplyReport>, i: int)
    requires 0 <= i < hs.len(), i < reps.len(), hunk_wf(hs[i]), norm(reps[i]) == stated_report(hs[i], d)
    ensures
        st_off(reps, i + 1) == 0,
        st_frozen(hs, d, reps, i + 1) == old_start(hs[i], d) + old_side(hs[i], d).len() - hs[i].suffix_context,
{
    lemma_view_fuzz0(hs[i], d);
    assert(reps[i] is Applied);
    assert(reps[i]->offset == 0 && reps[i]->fuzz == 0 && reps[i]->line == old_start(hs[i], d));
}

/// the frozen line after the first n hunks of a diff whose reports so far are the stated ones
pub open spec fn exact_frozen(hs: Seq<Hunk<&[u8]>>, d: PatchDirection, n: int) -> int {
    if n <= 0 { -1 } else { old_start(hs[n - 1], d) + old_side(hs[n - 1], d).len() - hs[n - 1].suffix_context }
}

/// one induction step for C01: given the threaded state of an exact prefix, hunk i gets its stated report
pub proof fn lemma_exact_step(x: Seq<Seq<u8>>, hs: Seq<Hunk<&[u8]>>, d: PatchDirection, limit: int, reps: Seq<HunkApplyReport>, i: int)
    requires
        0 <= limit, 0 <= i < hs.len(), reps.len() == hs.len(),
        diff_script(x, hs, d),
        reports_normal(hs, d, limit, x, false, reps, hs.len() as int),
        st_off(reps, i) == 0,
        st_frozen(hs, d, reps, i) == exact_frozen(hs, d, i),
    ensures
        norm(reps[i]) == stated_report(hs[i], d),
        st_off(reps, i + 1) == 0,
        st_frozen(hs, d, reps, i + 1) == exact_frozen(hs, d, i + 1),
{
    lemma_diff_script_at(x, hs, d, i);
    lemma_reports_normal_at(hs, d, limit, x, false, reps, hs.len() as int, i);
    lemma_exact_hunk(hs[i], d, limit, x, exact_frozen(hs, d, i), norm(reps[i]));
    lemma_state_after_stated(hs, d, reps, i);
}

pub proof fn lemma_exact_prefix(x: Seq<Seq<u8>>, hs: Seq<Hunk<&[u8]>>, d: PatchDirection, limit: int, reps: Seq<HunkApplyReport>, n: int)
    requires
        0 <= limit, 0 <= n <= hs.len(), reps.len() == hs.len(),
        diff_script(x, hs, d),
        reports_normal(hs, d, limit, x, false, reps, hs.len() as int),
    ensures
        forall|i: int| 0 <= i < n ==> norm(#[trigger] reps[i]) == stated_report(hs[i], d),
        st_off(reps, n) == 0,
        st_frozen(hs, d, reps, n) == exact_frozen(hs, d, n),
    decreases n
{
    if n > 0 {
        lemma_exact_prefix(x, hs, d, limit, reps, n - 1);
        lemma_exact_step(x, hs, d, limit, reps, n - 1);
    }
}

/// C01, statement level (modifications): every hunk of a diff applies at its stated line with offset 0 and fuzz 0
/// under every fuzz limit, nothing fails, and the content is the stated-position splice.
pub proof fn lemma_exact_diff(x: Seq<Seq<u8>>, hs: Seq<Hunk<&[u8]>>, d: PatchDirection, limit: int, reps: Seq<HunkApplyReport>)
    requires
        0 <= limit, reps.len() == hs.len(),
        diff_script(x, hs, d),
        reports_normal(hs, d, limit, x, false, reps, hs.len() as int),
    ensures
        forall|i: int| 0 <= i < hs.len() ==> norm(#[trigger] reps[i]) == stated_report(hs[i], d),
        !any_failed_spec(reps, hs.len() as int),
        splice_spec(x, hs, d, reps) == splice_spec(x, hs, d, Seq::new(hs.len(), |i: int| stated_report(hs[i], d))),
{
    let n = hs.len() as int;
    lemma_exact_prefix(x, hs, d, limit, reps, n);
    let st = Seq::new(hs.len(), |i: int| stated_report(hs[i], d));
    assert forall|i: int| 0 <= i < n implies !((#[trigger] reps[i]) is Failed) by { assert(norm(reps[i]) == stated_report(hs[i], d)); }
    lemma_no_failed(reps, n);
    assert forall|m: int| 0 <= m < n implies norm(#[trigger] reps[m]) == norm(st[m]) by { assert(norm(reps[m]) == stated_report(hs[m], d)); }
    lemma_norm_state(x, hs, d, reps, st, n);
}

/// C01 for an absent/empty side: a creation applied to a file without lines writes exactly the new side and marks the
/// file existing; a deletion applied to a file that equals the old side empties it (and marks it absent when the
/// patch names /dev/null).  Direct consequences of the contracts of apply_create / apply_delete (create_core/delete_core).
pub proof fn lemma_exact_whole(fp: FilePatch<&[u8]>, pre: ModifiedFile, d: PatchDirection, fuzz: usize,
                               reports: Seq<HunkApplyReport>, any_failed: bool, content: Seq<&[u8]>, deleted: bool)
    requires
        fp.kind != FilePatchKind::Modify, fp.hunks@.len() == 1,
        branch_core(fp, pre, d, fuzz, ApplyMode::Normal, reports, any_failed, content, deleted),
    ensures
        is_creation(fp, d) && pre.content@.len() == 0 ==> !any_failed && reports[0] is Applied && content == whole_new(fp, d) && !deleted,
        is_deletion(fp, d) && deep(pre.content@) == deep(whole_old(fp, d)) ==>
            !any_failed && reports[0] is Applied && content.len() == 0 && (target_is_devnull(fp, d) ==> deleted),
{
}
