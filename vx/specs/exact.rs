// C01 (modifications, line level): a unified diff pushed onto its own old file applies every hunk at its stated line
// with offset 0 and fuzz 0, for every fuzz limit.  Spec-level lemmas over the contract of apply_modify.

/// the report "applied exactly where the header says, without fuzz"
pub open spec fn stated_report(h: Hunk<&[u8]>, d: PatchDirection) -> HunkApplyReport {
    applied_report(h, d, 0, old_start(h, d))
}

/// hs, read in direction d, is a unified diff whose old file is x:
/// (S1) every old side stands in x at its stated line; (S2) the hunks are in order and do not overlap;
/// (S3) between the changed regions of consecutive hunks there is at least one unchanged line (else diff emits one
/// hunk); (S4) a hunk with less trailing than leading context ends at the end of x (its trailing context was cut by
/// EOF) - all true of the output of diff -U k for every k >= 0.
#[verifier::opaque]
pub open spec fn diff_script(x: Seq<Seq<u8>>, hs: Seq<Hunk<&[u8]>>, d: PatchDirection) -> bool {
    &&& hunks_wf(hs)
    &&& forall|i: int| 0 <= i < hs.len() ==> matches_at(deep(old_side(#[trigger] hs[i], d)), x, old_start(hs[i], d))
    &&& forall|i: int| 0 <= i < hs.len() - 1 ==>
            old_start(#[trigger] hs[i], d) + old_side(hs[i], d).len() <= old_start(hs[i + 1], d)
    &&& forall|i: int| 0 <= i < hs.len() - 1 ==>
            old_start(#[trigger] hs[i], d) + old_side(hs[i], d).len() - hs[i].suffix_context
            < old_start(hs[i + 1], d) + hs[i + 1].prefix_context
    &&& forall|i: int| 0 <= i < hs.len() && (#[trigger] hs[i]).prefix_context > hs[i].suffix_context ==>
            old_start(hs[i], d) + old_side(hs[i], d).len() == x.len()
}

pub proof fn lemma_view_fuzz0(h: Hunk<&[u8]>, d: PatchDirection)
    requires hunk_wf(h)
    ensures
        v_old(h, d, 0) == old_side(h, d), v_new(h, d, 0) == new_side(h, d),
        v_pc(h, 0) == h.prefix_context, v_sc(h, 0) == h.suffix_context,
        top_level(h, 0) == 0,
{
    assert(v_old(h, d, 0) =~= old_side(h, d));
    assert(v_new(h, d, 0) =~= new_side(h, d));
}

/// one hunk: if its old side stands at the stated line beyond the frozen line (and, when anchored to the end, the
/// stated line is the anchor), then under ANY limit the report is the stated one
pub proof fn lemma_exact_hunk(h: Hunk<&[u8]>, d: PatchDirection, limit: int, x: Seq<Seq<u8>>, frozen: int, r: HunkApplyReport)
    requires
        0 <= limit, hunk_wf(h),
        matches_at(deep(old_side(h, d)), x, old_start(h, d)),
        old_start(h, d) + h.prefix_context > frozen,
        h.prefix_context > h.suffix_context ==> old_start(h, d) + old_side(h, d).len() == x.len(),
        hunk_result(h, d, limit, x, false, 0, frozen, r),
        r == norm(r),
    ensures
        r == stated_report(h, d),
{
    lemma_view_fuzz0(h, d);
    let p = old_start(h, d);
    // level 0 admits the stated line
    assert(placed_at(h, d, 0, x, 0, p)) by {
        reveal(placed_at);
        let needle = deep(v_old(h, d, 0));
        assert(guess(h, d, 0, x.len() as int, 0) == p);
        assert(nearest(needle, x, p, p));
    }
    assert(applies_at(h, d, 0, x, false, 0, frozen)) by { reveal(applies_at); }
    match r {
        HunkApplyReport::Applied { .. } => {
            assert(r->fuzz == 0);
            reveal(try_result);
            lemma_placed_unique(h, d, 0, x, 0, p, r->line as int);
        },
        HunkApplyReport::Failed(_) => {
            assert(0 <= top_level(h, limit));
            assert(false);     // level 0 is admissible, so the hunk cannot be reported failed
        },
        HunkApplyReport::Skipped => {},
    }
}

/// what diff_script says about hunk i (and its predecessor)
pub proof fn lemma_diff_script_at(x: Seq<Seq<u8>>, hs: Seq<Hunk<&[u8]>>, d: PatchDirection, i: int)
    requires diff_script(x, hs, d), 0 <= i < hs.len()
    ensures
        hunk_wf(hs[i]),
        matches_at(deep(old_side(hs[i], d)), x, old_start(hs[i], d)),
        hs[i].prefix_context > hs[i].suffix_context ==> old_start(hs[i], d) + old_side(hs[i], d).len() == x.len(),
        i > 0 ==> hunk_wf(hs[i - 1]) && old_start(hs[i - 1], d) + old_side(hs[i - 1], d).len() - hs[i - 1].suffix_context
                  < old_start(hs[i], d) + hs[i].prefix_context,
{
    reveal(diff_script);
    if i > 0 { let _ = hs[i - 1]; }
}

pub proof fn lemma_reports_normal_at(hs: Seq<Hunk<&[u8]>>, d: PatchDirection, limit: int, c: Seq<Seq<u8>>, deleted: bool,
                                     reps: Seq<HunkApplyReport>, n: int, i: int)
    requires reports_normal(hs, d, limit, c, deleted, reps, n), 0 <= i < n
    ensures hunk_result(hs[i], d, limit, c, deleted, st_off(reps, i), st_frozen(hs, d, reps, i), norm(reps[i]))
{
    let _ = reps[i];
}

/// threaded state after a hunk whose report is the stated one
pub proof fn lemma_state_after_stated(hs: Seq<Hunk<&[u8]>>, d: PatchDirection, reps: Seq<HunkApplyReport>, i: int)
    requires 0 <= i < hs.len(), i < reps.len(), hunk_wf(hs[i]), norm(reps[i]) == stated_report(hs[i], d)
    ensures
        st_off(reps, i + 1) == 0,
        st_frozen(hs, d, reps, i + 1) == old_start(hs[i], d) + old_side(hs[i], d).len() - hs[i].suffix_context,
{
    lemma_view_fuzz0(hs[i], d);
    assert(reps[i] is Applied);
    assert(reps[i]->offset == 0 && reps[i]->fuzz == 0 && reps[i]->line == old_start(hs[i], d));
}

/// the frozen line after the first n hunks of a diff whose reports so far are the stated ones
pub open spec fn exact_frozen(hs: Seq<Hunk<&[u8]>>, d: PatchDirection, n: int) -> int {
    if n <= 0 { -1 } else { old_start(hs[n - 1], d) + old_side(hs[n - 1], d).len() - hs[n - 1].suffix_context }
}

/// one induction step for C01: given the threaded state of an exact prefix, hunk i gets its stated report
pub proof fn lemma_exact_step(x: Seq<Seq<u8>>, hs: Seq<Hunk<&[u8]>>, d: PatchDirection, limit: int, reps: Seq<HunkApplyReport>, i: int)
    requires
        0 <= limit, 0 <= i < hs.len(), reps.len() == hs.len(),
        diff_script(x, hs, d),
        reports_normal(hs, d, limit, x, false, reps, hs.len() as int),
        st_off(reps, i) == 0,
        st_frozen(hs, d, reps, i) == exact_frozen(hs, d, i),
    ensures
        norm(reps[i]) == stated_report(hs[i], d),
        st_off(reps, i + 1) == 0,
        st_frozen(hs, d, reps, i + 1) == exact_frozen(hs, d, i + 1),
{
    lemma_diff_script_at(x, hs, d, i);
    lemma_reports_normal_at(hs, d, limit, x, false, reps, hs.len() as int, i);
    lemma_exact_hunk(hs[i], d, limit, x, exact_frozen(hs, d, i), norm(reps[i]));
    lemma_state_after_stated(hs, d, reps, i);
}

pub proof fn lemma_exact_prefix(x: Seq<Seq<u8>>, hs: Seq<Hunk<&[u8]>>, d: PatchDirection, limit: int, reps: Seq<HunkApplyReport>, n: int)
    requires
        0 <= limit, 0 <= n <= hs.len(), reps.len() == hs.len(),
        diff_script(x, hs, d),
        reports_normal(hs, d, limit, x, false, reps, hs.len() as int),
    ensures
        forall|i: int| 0 <= i < n ==> norm(#[trigger] reps[i]) == stated_report(hs[i], d),
        st_off(reps, n) == 0,
        st_frozen(hs, d, reps, n) == exact_frozen(hs, d, n),
    decreases n
{
    if n > 0 {
        lemma_exact_prefix(x, hs, d, limit, reps, n - 1);
        lemma_exact_step(x, hs, d, limit, reps, n - 1);
    }
}

/// C01, statement level (modifications): every hunk of a diff applies at its stated line with offset 0 and fuzz 0
/// under every fuzz limit, nothing fails, and the content is the stated-position splice.
pub proof fn lemma_exact_diff(x: Seq<Seq<u8>>, hs: Seq<Hunk<&[u8]>>, d: PatchDirection, limit: int, reps: Seq<HunkApplyReport>)
    requires
        0 <= limit, reps.len() == hs.len(),
        diff_script(x, hs, d),
        reports_normal(hs, d, limit, x, false, reps, hs.len() as int),
    ensures
        forall|i: int| 0 <= i < hs.len() ==> norm(#[trigger] reps[i]) == stated_report(hs[i], d),
        !any_failed_spec(reps, hs.len() as int),
        splice_spec(x, hs, d, reps) == splice_spec(x, hs, d, Seq::new(hs.len(), |i: int| stated_report(hs[i], d))),
{
    let n = hs.len() as int;
    lemma_exact_prefix(x, hs, d, limit, reps, n);
    let st = Seq::new(hs.len(), |i: int| stated_report(hs[i], d));
    assert forall|i: int| 0 <= i < n implies !((#[trigger] reps[i]) is Failed) by { assert(norm(reps[i]) == stated_report(hs[i], d)); }
    lemma_no_failed(reps, n);
    assert forall|m: int| 0 <= m < n implies norm(#[trigger] reps[m]) == norm(st[m]) by { assert(norm(reps[m]) == stated_report(hs[m], d)); }
    lemma_norm_state(x, hs, d, reps, st, n);
}

/// C01 for an absent/empty side: a creation applied to a file without lines writes exactly the new side and marks the
/// file existing; a deletion applied to a file that equals the old side empties it (and marks it absent when the
/// patch names /dev/null).  Direct consequences of the contracts of apply_create / apply_delete (create_core/delete_core).
pub proof fn lemma_exact_whole(fp: FilePatch<&[u8]>, pre: ModifiedFile, d: PatchDirection, fuzz: usize,
                               reports: Seq<HunkApplyReport>, any_failed: bool, content: Seq<&[u8]>, deleted: bool)
    requires
        fp.kind != FilePatchKind::Modify, fp.hunks@.len() == 1,
        branch_core(fp, pre, d, fuzz, ApplyMode::Normal, reports, any_failed, content, deleted),
    ensures
        is_creation(fp, d) && pre.content@.len() == 0 ==> !any_failed && reports[0] is Applied && content == whole_new(fp, d) && !deleted,
        is_deletion(fp, d) && deep(pre.content@) == deep(whole_old(fp, d)) ==>
            !any_failed && reports[0] is Applied && content.len() == 0 && (target_is_devnull(fp, d) ==> deleted),
{
}

// ---------------------------------------------------------------- C01, the -R half

/// the reports a forward application of a diff produces: stated line, offset 0, fuzz 0, rollback line = where the
/// view starts in the result
#[verifier::opaque]
pub open spec fn produced_reports(x: Seq<Seq<u8>>, hs: Seq<Hunk<&[u8]>>, d: PatchDirection) -> Seq<HunkApplyReport> {
    let st = Seq::new(hs.len(), |i: int| stated_report(hs[i], d));
    Seq::new(hs.len(), |i: int| with_rollback_line(st[i], sp_moff(x, hs, d, st, i)))
}

/// the "+" line numbers of the headers are where the new sides really land (true of every diff: both columns of a
/// hunk header are computed from the same alignment)
#[verifier::opaque]
pub open spec fn header_consistent(x: Seq<Seq<u8>>, hs: Seq<Hunk<&[u8]>>, d: PatchDirection) -> bool {
    forall|i: int| 0 <= i < hs.len() ==> new_start(#[trigger] hs[i], d) == produced_reports(x, hs, d)[i]->rollback_line
}

pub proof fn lemma_produced_norm(x: Seq<Seq<u8>>, hs: Seq<Hunk<&[u8]>>, d: PatchDirection, i: int)
    requires 0 <= i < hs.len()
    ensures
        produced_reports(x, hs, d).len() == hs.len(),
        norm(produced_reports(x, hs, d)[i]) == stated_report(hs[i], d),
        produced_reports(x, hs, d)[i] is Applied,
        produced_reports(x, hs, d)[i] == with_rollback_line(stated_report(hs[i], d), sp_moff(x, hs, d, stated_seq(hs, d), i)),
{
    reveal(produced_reports);
    assert(stated_seq(hs, d) =~= Seq::new(hs.len(), |k: int| stated_report(hs[k], d)));
}

pub proof fn lemma_produced_len(x: Seq<Seq<u8>>, hs: Seq<Hunk<&[u8]>>, d: PatchDirection)
    ensures produced_reports(x, hs, d).len() == hs.len(), stated_seq(hs, d).len() == hs.len()
{
    reveal(produced_reports);
}

pub proof fn lemma_header_at(x: Seq<Seq<u8>>, hs: Seq<Hunk<&[u8]>>, d: PatchDirection, i: int)
    requires header_consistent(x, hs, d), 0 <= i < hs.len()
    ensures new_start(hs[i], d) == produced_reports(x, hs, d)[i]->rollback_line
{
    reveal(header_consistent);
    let _ = hs[i];
}

/// machine side conditions (all lines are slices of texts held in memory)
pub open spec fn sizes_ok(x: Seq<Seq<u8>>, hs: Seq<Hunk<&[u8]>>) -> bool {
    x.len() < BIG() && hs.len() < BIG() && hunks_total(hs, hs.len() as int) < BIG()
}

/// threaded frozen line / emitted-prefix position for the reports a diff produces
pub proof fn lemma_produced_frozen(x: Seq<Seq<u8>>, hs: Seq<Hunk<&[u8]>>, d: PatchDirection, n: int)
    requires diff_script(x, hs, d), 0 <= n <= hs.len()
    ensures st_frozen(hs, d, produced_reports(x, hs, d), n) == exact_frozen(hs, d, n)
    decreases n
{
    if n > 0 {
        lemma_produced_frozen(x, hs, d, n - 1);
        lemma_diff_script_at(x, hs, d, n - 1);
        lemma_produced_norm(x, hs, d, n - 1);
        lemma_state_after_stated(hs, d, produced_reports(x, hs, d), n - 1);
    }
}

/// what diff_script says about the changed region of hunk i in x
pub proof fn lemma_diff_core_at(x: Seq<Seq<u8>>, hs: Seq<Hunk<&[u8]>>, d: PatchDirection, i: int)
    requires diff_script(x, hs, d), 0 <= i < hs.len()
    ensures
        ({
            let r = produced_reports(x, hs, d)[i];
            let cs = rep_core_start(hs[i], r);
            let ce = rep_core_end(hs[i], d, r);
            &&& cs == old_start(hs[i], d) + hs[i].prefix_context
            &&& ce == old_start(hs[i], d) + old_side(hs[i], d).len() - hs[i].suffix_context
            &&& sp_pos(hs, d, produced_reports(x, hs, d), i) <= cs <= ce <= x.len()
            &&& 0 <= old_start(hs[i], d) && old_start(hs[i], d) + old_side(hs[i], d).len() <= x.len()
            &&& x.subrange(cs, ce) == deep(v_old_core(hs[i], d, 0))
            &&& i > 0 ==> sp_pos(hs, d, produced_reports(x, hs, d), i) <= old_start(hs[i], d)
        }),
{
    lemma_diff_script_at(x, hs, d, i);
    lemma_produced_norm(x, hs, d, i);
    lemma_produced_frozen(x, hs, d, i);
    lemma_view_fuzz0(hs[i], d);
    let h = hs[i];
    let p = old_start(h, d);
    let o = deep(old_side(h, d));
    let pc = h.prefix_context as int;
    let sc = h.suffix_context as int;
    assert(x.subrange(p, p + o.len()).subrange(pc, o.len() - sc) =~= x.subrange(p + pc, p + o.len() - sc));
    assert(o.subrange(pc, o.len() - sc) =~= deep(v_old_core(h, d, 0)));
    if i > 0 {
        reveal(diff_script);
        let _ = hs[i - 1];
    }
}

pub proof fn lemma_diff_applied_state(x: Seq<Seq<u8>>, hs: Seq<Hunk<&[u8]>>, d: PatchDirection)
    requires diff_script(x, hs, d), sizes_ok(x, hs)
    ensures
        applied_state(x, hs, d, produced_reports(x, hs, d)),
        cores_match(x, hs, d, produced_reports(x, hs, d), hs.len() as int),
{
    reveal(applied_state);
    reveal(cores_match);
    let reps = produced_reports(x, hs, d);
    let n = hs.len() as int;
    lemma_produced_len(x, hs, d);
    assert(hunks_wf(hs)) by { reveal(diff_script); }
    assert forall|i: int| 0 <= i < n && (#[trigger] reps[i]) is Applied implies {
        &&& sp_pos(hs, d, reps, i) <= rep_core_start(hs[i], reps[i])
        &&& rep_core_start(hs[i], reps[i]) <= rep_core_end(hs[i], d, reps[i])
        &&& rep_core_end(hs[i], d, reps[i]) <= x.len()
        &&& norm(reps[i]) == applied_report(hs[i], d, reps[i]->fuzz as int, reps[i]->line as int)
        &&& -BIG() < reps[i]->line < BIG()
        &&& x.subrange(rep_core_start(hs[i], reps[i]), rep_core_end(hs[i], d, reps[i])) == deep(v_old_core(hs[i], d, reps[i]->fuzz as int))
    } by {
        lemma_diff_core_at(x, hs, d, i);
        lemma_produced_norm(x, hs, d, i);
    }
    assert forall|i: int| 0 <= i < n && (#[trigger] reps[i]) is Applied implies
        reps[i]->rollback_line == reps[i]->line + sp_moff(x, hs, d, reps, i) by {
        lemma_diff_core_at(x, hs, d, i);
        lemma_produced_moff(x, hs, d, i);
    }
}

/// sp_moff of the produced reports equals sp_moff of the stated ones (it depends on line and fuzz only), and the
/// recorded rollback line is the stated line plus it (no truncation: both are far inside the machine range)
pub proof fn lemma_produced_moff(x: Seq<Seq<u8>>, hs: Seq<Hunk<&[u8]>>, d: PatchDirection, i: int)
    requires diff_script(x, hs, d), sizes_ok(x, hs), 0 <= i < hs.len()
    ensures
        ({
            let st = stated_seq(hs, d);
            let reps = produced_reports(x, hs, d);
            &&& sp_moff(x, hs, d, reps, i) == sp_moff(x, hs, d, st, i)
            &&& reps[i]->rollback_line == reps[i]->line + sp_moff(x, hs, d, reps, i)
            &&& -BIG() < sp_moff(x, hs, d, reps, i) < BIG()
        }),
{
    let st = stated_seq(hs, d);
    let reps = produced_reports(x, hs, d);
    lemma_produced_len(x, hs, d);
    assert forall|m: int| 0 <= m < i implies norm(#[trigger] reps[m]) == norm(st[m]) by { lemma_produced_norm(x, hs, d, m); }
    lemma_norm_state(x, hs, d, reps, st, i);
    lemma_produced_norm(x, hs, d, i);
    // bounds of the shift: the emitted prefix is at most the consumed lines plus what the hunks add
    assert(hunks_wf(hs)) by { reveal(diff_script); }
    lemma_produced_cores_prefix(x, hs, d, i);
    lemma_out_len(x, hs, d, reps, i);
    lemma_total_mono(hs, i, hs.len() as int);
    lemma_diff_script_at(x, hs, d, i);
}

pub proof fn lemma_produced_cores_prefix(x: Seq<Seq<u8>>, hs: Seq<Hunk<&[u8]>>, d: PatchDirection, n: int)
    requires diff_script(x, hs, d), 0 <= n <= hs.len()
    ensures cores_ordered(x.len() as int, hs, d, produced_reports(x, hs, d), n)
{
    let reps = produced_reports(x, hs, d);
    assert forall|i: int| 0 <= i < n && (#[trigger] reps[i]) is Applied implies {
        &&& sp_pos(hs, d, reps, i) <= rep_core_start(hs[i], reps[i])
        &&& rep_core_start(hs[i], reps[i]) <= rep_core_end(hs[i], d, reps[i])
        &&& rep_core_end(hs[i], d, reps[i]) <= x.len() } by {
        lemma_diff_core_at(x, hs, d, i);
    }
}

pub open spec fn stated_seq(hs: Seq<Hunk<&[u8]>>, d: PatchDirection) -> Seq<HunkApplyReport> {
    Seq::new(hs.len(), |i: int| stated_report(hs[i], d))
}
pub open spec fn diff_result(x: Seq<Seq<u8>>, hs: Seq<Hunk<&[u8]>>, d: PatchDirection) -> Seq<Seq<u8>> {
    splice_spec(x, hs, d, produced_reports(x, hs, d))
}

/// C01, -R, content: splicing the same hunks back in the opposite direction at their stated "+" lines restores x
pub proof fn lemma_round_trip_content(x: Seq<Seq<u8>>, hs: Seq<Hunk<&[u8]>>, d: PatchDirection)
    requires diff_script(x, hs, d), sizes_ok(x, hs), header_consistent(x, hs, d)
    ensures splice_spec(diff_result(x, hs, d), hs, opp(d), stated_seq(hs, opp(d))) == x
{
    let reps = produced_reports(x, hs, d);
    let und = stated_seq(hs, opp(d));
    lemma_diff_applied_state(x, hs, d);
    lemma_produced_len(x, hs, d);
    assert(undo_like(hs, d, reps, und)) by {
        reveal(undo_like);
        assert forall|i: int| 0 <= i < reps.len() implies norm(#[trigger] und[i]) == undo_report(hs[i], d, reps[i]) by {
            lemma_produced_norm(x, hs, d, i);
            lemma_header_at(x, hs, d, i);
        }
    }
    lemma_undo_modify(x, hs, d, reps, und);
}

/// where the view of hunk i starts in the result, and how the shift grows
pub proof fn lemma_new_start_at(x: Seq<Seq<u8>>, hs: Seq<Hunk<&[u8]>>, d: PatchDirection, i: int)
    requires diff_script(x, hs, d), sizes_ok(x, hs), header_consistent(x, hs, d), 0 <= i < hs.len()
    ensures
        ({
            let reps = produced_reports(x, hs, d);
            let q = new_start(hs[i], d);
            let oi = sp_out(x, hs, d, reps, i).len() as int;
            let pos = sp_pos(hs, d, reps, i);
            &&& q == old_start(hs[i], d) + sp_moff(x, hs, d, reps, i)
            &&& q == oi + (old_start(hs[i], d) - pos)
            &&& sp_moff(x, hs, d, reps, i + 1) == sp_moff(x, hs, d, reps, i) + new_side(hs[i], d).len() - old_side(hs[i], d).len()
            &&& sp_out(x, hs, d, reps, i + 1).len() == q + new_side(hs[i], d).len() - hs[i].suffix_context
        }),
{
    let reps = produced_reports(x, hs, d);
    lemma_produced_norm(x, hs, d, i);
    lemma_produced_moff(x, hs, d, i);
    lemma_header_at(x, hs, d, i);
    lemma_diff_core_at(x, hs, d, i);
    lemma_diff_script_at(x, hs, d, i);
    lemma_view_fuzz0(hs[i], d);
    assert(hunk_wf(hs[i]));
    assert(sp_pos(hs, d, reps, i + 1) == rep_core_end(hs[i], d, reps[i]));
}

/// context lines of a well-formed hunk are the same bytes on both sides
pub proof fn lemma_hunk_contexts(h: Hunk<&[u8]>, d: PatchDirection)
    requires hunk_wf(h)
    ensures
        ({
            let nw = deep(new_side(h, d));
            let ol = deep(old_side(h, d));
            let pc = h.prefix_context as int;
            let sc = h.suffix_context as int;
            &&& pc + sc <= nw.len() && pc + sc <= ol.len()
            &&& nw.subrange(0, pc) == ol.subrange(0, pc)
            &&& nw.subrange(nw.len() - sc, nw.len() as int) == ol.subrange(ol.len() - sc, ol.len() as int)
            &&& nw.subrange(pc, nw.len() - sc) == deep(v_new_core(h, d, 0))
        }),
{
    lemma_view_fuzz0(h, d);
    let nw = deep(new_side(h, d));
    let ol = deep(old_side(h, d));
    let pc = h.prefix_context as int;
    let sc = h.suffix_context as int;
    let rem = h.remove.content@;
    let add = h.add.content@;
    assert forall|k: int| 0 <= k < pc implies nw.subrange(0, pc)[k] == ol.subrange(0, pc)[k] by {
        assert(rem[k] == add[k]);
    }
    assert(nw.subrange(0, pc) =~= ol.subrange(0, pc));
    assert forall|k: int| 0 <= k < sc implies
        #[trigger] nw.subrange(nw.len() - sc, nw.len() as int)[k] == ol.subrange(ol.len() - sc, ol.len() as int)[k] by {
        assert(rem[rem.len() - sc + k] == add[rem.len() - sc + k - rem.len() + add.len()]);
    }
    assert(nw.subrange(nw.len() - sc, nw.len() as int) =~= ol.subrange(ol.len() - sc, ol.len() as int));
    assert(nw.subrange(pc, nw.len() - sc) =~= deep(v_new_core(h, d, 0)));
}

/// pure sequence fact: three consecutive pieces of y equal to the three pieces of w
pub proof fn lemma_three_pieces<T>(y: Seq<T>, w: Seq<T>, q: int, a: int, b: int)
    requires
        0 <= a <= b <= w.len(), 0 <= q, q + w.len() <= y.len(),
        y.subrange(q, q + a) == w.subrange(0, a),
        y.subrange(q + a, q + b) == w.subrange(a, b),
        y.subrange(q + b, q + w.len()) == w.subrange(b, w.len() as int),
    ensures y.subrange(q, q + w.len()) == w
{
    assert(y.subrange(q, q + w.len()) =~= y.subrange(q, q + a) + y.subrange(q + a, q + b) + y.subrange(q + b, q + w.len()));
    assert(w =~= w.subrange(0, a) + w.subrange(a, b) + w.subrange(b, w.len() as int));
}

/// leading context and new core of hunk i in the result - split by conclusion (each query stays small; the combined
/// lemma was context-sensitive: 99M -> 197M resource units after an unrelated edit of this file)
pub proof fn lemma_nvf_arith(x: Seq<Seq<u8>>, hs: Seq<Hunk<&[u8]>>, d: PatchDirection, i: int)
    requires diff_script(x, hs, d), sizes_ok(x, hs), header_consistent(x, hs, d), 0 <= i < hs.len()
    ensures
        0 <= new_start(hs[i], d),
        hs[i].prefix_context + hs[i].suffix_context <= new_side(hs[i], d).len(),
        new_start(hs[i], d) + new_side(hs[i], d).len() - hs[i].suffix_context == sp_out(x, hs, d, produced_reports(x, hs, d), i + 1).len(),
        new_start(hs[i], d) + new_side(hs[i], d).len() - hs[i].suffix_context <= diff_result(x, hs, d).len(),
{
    let reps = produced_reports(x, hs, d);
    let y = diff_result(x, hs, d);
    let h = hs[i];
    let q = new_start(h, d);
    let p = old_start(h, d);
    let pc = h.prefix_context as int;
    let nw = deep(new_side(h, d));
    let ol = deep(old_side(h, d));
    lemma_diff_applied_state(x, hs, d);
    lemma_produced_norm(x, hs, d, i);
    lemma_applied_state_at(x, hs, d, reps, i);
    lemma_new_start_at(x, hs, d, i);
    lemma_diff_core_at(x, hs, d, i);
    lemma_diff_script_at(x, hs, d, i);
    lemma_hunk_contexts(h, d);
    lemma_patched_segments(x, hs, d, reps, i);
}

pub proof fn lemma_nvf_prefix(x: Seq<Seq<u8>>, hs: Seq<Hunk<&[u8]>>, d: PatchDirection, i: int)
    requires diff_script(x, hs, d), sizes_ok(x, hs), header_consistent(x, hs, d), 0 <= i < hs.len()
    ensures
        diff_result(x, hs, d).subrange(new_start(hs[i], d), new_start(hs[i], d) + hs[i].prefix_context)
            == deep(new_side(hs[i], d)).subrange(0, hs[i].prefix_context as int),
{
    let reps = produced_reports(x, hs, d);
    let y = diff_result(x, hs, d);
    let h = hs[i];
    let q = new_start(h, d);
    let p = old_start(h, d);
    let pc = h.prefix_context as int;
    let nw = deep(new_side(h, d));
    let ol = deep(old_side(h, d));
    lemma_diff_applied_state(x, hs, d);
    lemma_produced_norm(x, hs, d, i);
    lemma_applied_state_at(x, hs, d, reps, i);
    lemma_new_start_at(x, hs, d, i);
    lemma_diff_core_at(x, hs, d, i);
    lemma_diff_script_at(x, hs, d, i);
    lemma_hunk_contexts(h, d);
    lemma_patched_segments(x, hs, d, reps, i);
    let oi = sp_out(x, hs, d, reps, i).len() as int;
    let pos = sp_pos(hs, d, reps, i);
    let cs = p + pc;
    let seg = y.subrange(oi, oi + (cs - pos));
    assert(y.subrange(q, q + pc) =~= seg.subrange(q - oi, q - oi + pc));
    assert(x.subrange(pos, cs).subrange(p - pos, p - pos + pc) =~= x.subrange(p, p + pc));
    assert(x.subrange(p, p + ol.len()).subrange(0, pc) =~= x.subrange(p, p + pc));
}

pub proof fn lemma_nvf_core(x: Seq<Seq<u8>>, hs: Seq<Hunk<&[u8]>>, d: PatchDirection, i: int)
    requires diff_script(x, hs, d), sizes_ok(x, hs), header_consistent(x, hs, d), 0 <= i < hs.len()
    ensures
        diff_result(x, hs, d).subrange(new_start(hs[i], d) + hs[i].prefix_context,
                                       new_start(hs[i], d) + new_side(hs[i], d).len() - hs[i].suffix_context)
            == deep(new_side(hs[i], d)).subrange(hs[i].prefix_context as int, new_side(hs[i], d).len() - hs[i].suffix_context),
{
    let reps = produced_reports(x, hs, d);
    let y = diff_result(x, hs, d);
    let h = hs[i];
    let q = new_start(h, d);
    let p = old_start(h, d);
    let pc = h.prefix_context as int;
    let nw = deep(new_side(h, d));
    let ol = deep(old_side(h, d));
    lemma_diff_applied_state(x, hs, d);
    lemma_produced_norm(x, hs, d, i);
    lemma_applied_state_at(x, hs, d, reps, i);
    lemma_new_start_at(x, hs, d, i);
    lemma_diff_core_at(x, hs, d, i);
    lemma_diff_script_at(x, hs, d, i);
    lemma_hunk_contexts(h, d);
    lemma_patched_segments(x, hs, d, reps, i);
}

pub proof fn lemma_new_view_front(x: Seq<Seq<u8>>, hs: Seq<Hunk<&[u8]>>, d: PatchDirection, i: int)
    requires diff_script(x, hs, d), sizes_ok(x, hs), header_consistent(x, hs, d), 0 <= i < hs.len()
    ensures
        ({
            let y = diff_result(x, hs, d);
            let q = new_start(hs[i], d);
            let pc = hs[i].prefix_context as int;
            let sc = hs[i].suffix_context as int;
            let nw = deep(new_side(hs[i], d));
            &&& 0 <= q && pc + sc <= nw.len()
            &&& q + nw.len() - sc == sp_out(x, hs, d, produced_reports(x, hs, d), i + 1).len()
            &&& y.subrange(q, q + pc) == nw.subrange(0, pc)
            &&& y.subrange(q + pc, q + nw.len() - sc) == nw.subrange(pc, nw.len() - sc)
        }),
{
    lemma_nvf_arith(x, hs, d, i);
    lemma_nvf_prefix(x, hs, d, i);
    lemma_nvf_core(x, hs, d, i);
}

/// the whole new side of hunk i (context included) stands in the result at its stated "+" line
pub proof fn lemma_new_view_in_result(x: Seq<Seq<u8>>, hs: Seq<Hunk<&[u8]>>, d: PatchDirection, i: int)
    requires diff_script(x, hs, d), sizes_ok(x, hs), header_consistent(x, hs, d), 0 <= i < hs.len()
    ensures matches_at(deep(new_side(hs[i], d)), diff_result(x, hs, d), new_start(hs[i], d))
{
    let y = diff_result(x, hs, d);
    let h = hs[i];
    let q = new_start(h, d);
    let p = old_start(h, d);
    let pc = h.prefix_context as int;
    let sc = h.suffix_context as int;
    let nw = deep(new_side(h, d));
    let ol = deep(old_side(h, d));
    lemma_new_view_front(x, hs, d, i);
    lemma_after_core(x, hs, d, i);
    lemma_diff_script_at(x, hs, d, i);
    lemma_hunk_contexts(h, d);
    let ce = p + ol.len() - sc;
    assert(x.subrange(p, p + ol.len()).subrange(ol.len() - sc, ol.len() as int) =~= x.subrange(ce, ce + sc));
    lemma_three_pieces(y, nw, q, pc, nw.len() - sc);
}

/// what lemma_after_core concludes, as a predicate (so that the two case lemmas and the dispatcher share one statement)
pub open spec fn after_core_ok(x: Seq<Seq<u8>>, hs: Seq<Hunk<&[u8]>>, d: PatchDirection, i: int) -> bool {
    let reps = produced_reports(x, hs, d);
    let y = diff_result(x, hs, d);
    let o1 = sp_out(x, hs, d, reps, i + 1).len() as int;
    let sc = hs[i].suffix_context as int;
    let ce = old_start(hs[i], d) + old_side(hs[i], d).len() - sc;
    &&& 0 <= o1 && o1 + sc <= y.len()
    &&& 0 <= ce && ce + sc <= x.len()
    &&& y.subrange(o1, o1 + sc) == x.subrange(ce, ce + sc)
}

/// case: hunk i is followed by another hunk (the untouched segment up to the next core contains the trailing context)
pub proof fn lemma_after_core_mid(x: Seq<Seq<u8>>, hs: Seq<Hunk<&[u8]>>, d: PatchDirection, i: int)
    requires diff_script(x, hs, d), sizes_ok(x, hs), header_consistent(x, hs, d), 0 <= i < hs.len() - 1
    ensures after_core_ok(x, hs, d, i)
{
    let reps = produced_reports(x, hs, d);
    let y = diff_result(x, hs, d);
    let sc = hs[i].suffix_context as int;
    lemma_diff_applied_state(x, hs, d);
    lemma_diff_core_at(x, hs, d, i);
    lemma_diff_script_at(x, hs, d, i);
    lemma_produced_norm(x, hs, d, i);
    lemma_view_fuzz0(hs[i], d);
    lemma_applied_state_at(x, hs, d, reps, i);
    let o1 = sp_out(x, hs, d, reps, i + 1).len() as int;
    let ce = old_start(hs[i], d) + old_side(hs[i], d).len() - sc;
    assert(sp_pos(hs, d, reps, i + 1) == ce);
    lemma_applied_state_at(x, hs, d, reps, i + 1);
    lemma_produced_norm(x, hs, d, i + 1);
    lemma_patched_segments(x, hs, d, reps, i + 1);
    lemma_diff_core_at(x, hs, d, i + 1);
    lemma_diff_script_at(x, hs, d, i + 1);
    let cs1 = rep_core_start(hs[i + 1], reps[i + 1]);
    assert(ce + sc <= old_start(hs[i + 1], d)) by { reveal(diff_script); let _ = hs[i]; }
    assert(y.subrange(o1, o1 + (cs1 - ce)).subrange(0, sc) =~= y.subrange(o1, o1 + sc));
    assert(x.subrange(ce, cs1).subrange(0, sc) =~= x.subrange(ce, ce + sc));
}

/// case: hunk i is the last one (the result ends with x's lines after its core)
pub proof fn lemma_after_core_last(x: Seq<Seq<u8>>, hs: Seq<Hunk<&[u8]>>, d: PatchDirection, i: int)
    requires diff_script(x, hs, d), sizes_ok(x, hs), header_consistent(x, hs, d), 0 <= i, i == hs.len() - 1
    ensures after_core_ok(x, hs, d, i)
{
    let reps = produced_reports(x, hs, d);
    let y = diff_result(x, hs, d);
    let n = hs.len() as int;
    let sc = hs[i].suffix_context as int;
    lemma_diff_applied_state(x, hs, d);
    lemma_diff_core_at(x, hs, d, i);
    lemma_diff_script_at(x, hs, d, i);
    lemma_produced_norm(x, hs, d, i);
    lemma_view_fuzz0(hs[i], d);
    lemma_applied_state_at(x, hs, d, reps, i);
    let o1 = sp_out(x, hs, d, reps, i + 1).len() as int;
    let ce = old_start(hs[i], d) + old_side(hs[i], d).len() - sc;
    assert(sp_pos(hs, d, reps, i + 1) == ce);
    lemma_applied_pos(x, hs, d, reps, n);
    let on = sp_out(x, hs, d, reps, n);
    let tail = x.subrange(ce, x.len() as int);
    assert(y == on + tail);
    assert(y.subrange(o1, o1 + sc) =~= tail.subrange(0, sc));
    assert(tail.subrange(0, sc) =~= x.subrange(ce, ce + sc));
}

/// right after the new core of hunk i the result continues with x's lines after the old core, at least for the
/// trailing context of the hunk
pub proof fn lemma_after_core(x: Seq<Seq<u8>>, hs: Seq<Hunk<&[u8]>>, d: PatchDirection, i: int)
    requires diff_script(x, hs, d), sizes_ok(x, hs), header_consistent(x, hs, d), 0 <= i < hs.len()
    ensures
        ({
            let reps = produced_reports(x, hs, d);
            let y = diff_result(x, hs, d);
            let o1 = sp_out(x, hs, d, reps, i + 1).len() as int;
            let sc = hs[i].suffix_context as int;
            let ce = old_start(hs[i], d) + old_side(hs[i], d).len() - sc;
            &&& 0 <= o1 && o1 + sc <= y.len()
            &&& 0 <= ce && ce + sc <= x.len()
            &&& y.subrange(o1, o1 + sc) == x.subrange(ce, ce + sc)
        }),
{
    if i + 1 < hs.len() { lemma_after_core_mid(x, hs, d, i); } else { lemma_after_core_last(x, hs, d, i); }
}

/// mirrored end-of-file anchoring (context is symmetric between the two files of a diff): a hunk with less trailing
/// than leading context also ends at the end of the NEW file
pub open spec fn reverse_anchored(x: Seq<Seq<u8>>, hs: Seq<Hunk<&[u8]>>, d: PatchDirection) -> bool {
    forall|i: int| 0 <= i < hs.len() && (#[trigger] hs[i]).prefix_context > hs[i].suffix_context ==>
        new_start(hs[i], d) + new_side(hs[i], d).len() == diff_result(x, hs, d).len()
}

/// order of consecutive new views / changed regions in the result (the arithmetic mirror of S2, S3)
pub proof fn lemma_reverse_pair(x: Seq<Seq<u8>>, hs: Seq<Hunk<&[u8]>>, d: PatchDirection, i: int)
    requires diff_script(x, hs, d), sizes_ok(x, hs), header_consistent(x, hs, d), 0 <= i < hs.len() - 1
    ensures
        new_start(hs[i], d) + new_side(hs[i], d).len() <= new_start(hs[i + 1], d),
        new_start(hs[i], d) + new_side(hs[i], d).len() - hs[i].suffix_context < new_start(hs[i + 1], d) + hs[i + 1].prefix_context,
{
    lemma_new_start_at(x, hs, d, i);
    lemma_new_start_at(x, hs, d, i + 1);
    reveal(diff_script);
    let _ = hs[i];
}

/// the result of a diff is itself a diff script for the same hunks read in the opposite direction
pub proof fn lemma_reverse_script(x: Seq<Seq<u8>>, hs: Seq<Hunk<&[u8]>>, d: PatchDirection)
    requires diff_script(x, hs, d), sizes_ok(x, hs), header_consistent(x, hs, d), reverse_anchored(x, hs, d)
    ensures diff_script(diff_result(x, hs, d), hs, opp(d))
{
    let y = diff_result(x, hs, d);
    let e = opp(d);
    assert(hunks_wf(hs)) by { reveal(diff_script); }
    assert forall|i: int| 0 <= i < hs.len() implies matches_at(deep(old_side(#[trigger] hs[i], e)), y, old_start(hs[i], e)) by {
        lemma_new_view_in_result(x, hs, d, i);
    }
    assert forall|i: int| 0 <= i < hs.len() - 1 implies
        old_start(#[trigger] hs[i], e) + old_side(hs[i], e).len() <= old_start(hs[i + 1], e)
        && old_start(hs[i], e) + old_side(hs[i], e).len() - hs[i].suffix_context < old_start(hs[i + 1], e) + hs[i + 1].prefix_context by {
        lemma_reverse_pair(x, hs, d, i);
    }
    assert forall|i: int| 0 <= i < hs.len() && (#[trigger] hs[i]).prefix_context > hs[i].suffix_context implies
        old_start(hs[i], e) + old_side(hs[i], e).len() == y.len() by {}
    reveal(diff_script);
}

/// C01, statement level, both directions (modifications, line level): pushing the diff onto x applies every hunk at its
/// stated line with offset 0 and fuzz 0 and yields y; pushing the same hunks with -R onto y applies every hunk at its
/// stated "+" line with offset 0 and fuzz 0 and yields exactly x - for every fuzz limit, whatever reports the verified
/// apply_modify produces.
pub proof fn lemma_exact_round_trip(x: Seq<Seq<u8>>, hs: Seq<Hunk<&[u8]>>, d: PatchDirection, limit1: int, limit2: int,
                                    r1: Seq<HunkApplyReport>, r2: Seq<HunkApplyReport>)
    requires
        diff_script(x, hs, d), sizes_ok(x, hs), header_consistent(x, hs, d), reverse_anchored(x, hs, d),
        0 <= limit1, 0 <= limit2, r1.len() == hs.len(), r2.len() == hs.len(),
        reports_normal(hs, d, limit1, x, false, r1, hs.len() as int),
        reports_normal(hs, opp(d), limit2, splice_spec(x, hs, d, r1), false, r2, hs.len() as int),
    ensures
        !any_failed_spec(r1, hs.len() as int), !any_failed_spec(r2, hs.len() as int),
        forall|i: int| 0 <= i < hs.len() ==> norm(#[trigger] r1[i]) == stated_report(hs[i], d),
        forall|i: int| 0 <= i < hs.len() ==> norm(#[trigger] r2[i]) == stated_report(hs[i], opp(d)),
        splice_spec(splice_spec(x, hs, d, r1), hs, opp(d), r2) == x,
{
    let n = hs.len() as int;
    lemma_exact_diff(x, hs, d, limit1, r1);
    // the forward content is the diff result
    lemma_produced_len(x, hs, d);
    let pr = produced_reports(x, hs, d);
    assert forall|m: int| 0 <= m < n implies norm(#[trigger] r1[m]) == norm(pr[m]) by { lemma_produced_norm(x, hs, d, m); }
    lemma_norm_state(x, hs, d, r1, pr, n);
    let y = diff_result(x, hs, d);
    assert(splice_spec(x, hs, d, r1) == y);
    // backwards
    lemma_reverse_script(x, hs, d);
    lemma_exact_diff(y, hs, opp(d), limit2, r2);
    lemma_round_trip_content(x, hs, d);
    assert(stated_seq(hs, opp(d)) =~= Seq::new(hs.len(), |i: int| stated_report(hs[i], opp(d))));
}
