// C04: undoing an application.  Spec-level lemmas over the contracts of apply_modify: if R are the reports of a
// normal application on c0 giving c1 = splice_spec(c0, hs, d, R), then rollback mode on c1 with R (direction
// opposite(d)) re-applies every applied hunk at its recorded line, never fails, and yields exactly c0.

pub open spec fn opp(d: PatchDirection) -> PatchDirection {
    match d { PatchDirection::Forward => PatchDirection::Revert, PatchDirection::Revert => PatchDirection::Forward }
}

/// what a normal application leaves behind (the part of apply_modify's postcondition that undoing needs)
#[verifier::opaque]
pub open spec fn applied_state(c0: Seq<Seq<u8>>, hs: Seq<Hunk<&[u8]>>, d: PatchDirection, reps: Seq<HunkApplyReport>) -> bool {
    &&& reps.len() == hs.len()
    &&& hunks_wf(hs)
    &&& hs.len() < BIG()
    &&& hunks_total(hs, hs.len() as int) < BIG()
    &&& c0.len() < BIG()
    &&& cores_ordered(c0.len() as int, hs, d, reps, hs.len() as int)
    &&& reports_shape(hs, d, reps, hs.len() as int)
    &&& rollback_lines_ok(c0, hs, d, reps, hs.len() as int)
}

pub proof fn lemma_view_opposite(h: Hunk<&[u8]>, d: PatchDirection, f: int)
    ensures
        v_old(h, opp(d), f) == v_new(h, d, f),
        v_new(h, opp(d), f) == v_old(h, d, f),
        v_old_core(h, opp(d), f) == v_new_core(h, d, f),
        v_new_core(h, opp(d), f) == v_old_core(h, d, f),
{
}

/// the emitted prefix only grows
pub proof fn lemma_out_grows(c: Seq<Seq<u8>>, hs: Seq<Hunk<&[u8]>>, d: PatchDirection, reps: Seq<HunkApplyReport>, i: int, j: int)
    requires
        0 <= i <= j <= hs.len(), j <= reps.len(), hunks_wf(hs),
        cores_ordered(c.len() as int, hs, d, reps, j),
    ensures
        sp_out(c, hs, d, reps, i).len() <= sp_out(c, hs, d, reps, j).len(),
        sp_out(c, hs, d, reps, j).subrange(0, sp_out(c, hs, d, reps, i).len() as int) == sp_out(c, hs, d, reps, i),
        sp_pos(hs, d, reps, i) <= sp_pos(hs, d, reps, j),
    decreases j - i
{
    if i < j {
        lemma_out_grows(c, hs, d, reps, i, j - 1);
        lemma_out_len(c, hs, d, reps, j - 1);
        let a = sp_out(c, hs, d, reps, i);
        let b = sp_out(c, hs, d, reps, j - 1);
        let e = sp_out(c, hs, d, reps, j);
        assert(hunk_wf(hs[j - 1]));
        if reps[j - 1] is Applied {
            assert(sp_pos(hs, d, reps, j - 1) <= rep_core_start(hs[j - 1], reps[j - 1]));
            assert(e.subrange(0, b.len() as int) =~= b);
            assert(e.subrange(0, a.len() as int) =~= b.subrange(0, a.len() as int));
        }
    } else {
        assert(sp_out(c, hs, d, reps, j).subrange(0, sp_out(c, hs, d, reps, i).len() as int) =~= sp_out(c, hs, d, reps, i));
    }
}

/// pure sequence fact: if `whole` starts with a + x + y then x and y sit right after a
pub proof fn lemma_seq_segments<T>(a: Seq<T>, x: Seq<T>, y: Seq<T>, on: Seq<T>, tail: Seq<T>)
    requires
        (a + x + y).len() <= on.len(),
        on.subrange(0, (a + x + y).len() as int) == a + x + y,
    ensures
        (on + tail).subrange(a.len() as int, (a.len() + x.len()) as int) == x,
        (on + tail).subrange((a.len() + x.len()) as int, (a.len() + x.len() + y.len()) as int) == y,
{
    let w = on + tail;
    let o1 = a + x + y;
    let al = a.len() as int;
    let xl = x.len() as int;
    let yl = y.len() as int;
    assert forall|k: int| 0 <= k < o1.len() implies #[trigger] w[k] == o1[k] by {
        assert(on.subrange(0, o1.len() as int)[k] == on[k]);
    }
    assert(w.subrange(al, al + xl) =~= x);
    assert(w.subrange(al + xl, al + xl + yl) =~= y);
}

/// where hunk i's replacement sits in the patched file
pub proof fn lemma_patched_segments(c0: Seq<Seq<u8>>, hs: Seq<Hunk<&[u8]>>, d: PatchDirection, reps: Seq<HunkApplyReport>, i: int)
    requires
        reps.len() == hs.len(), hunks_wf(hs),
        cores_ordered(c0.len() as int, hs, d, reps, hs.len() as int),
        0 <= i < hs.len(), reps[i] is Applied,
    ensures
        ({
            let c1 = splice_spec(c0, hs, d, reps);
            let oi = sp_out(c0, hs, d, reps, i).len() as int;
            let pos = sp_pos(hs, d, reps, i);
            let cs = rep_core_start(hs[i], reps[i]);
            let nc = deep(v_new_core(hs[i], d, reps[i]->fuzz as int));
            &&& 0 <= pos <= cs <= c0.len()
            &&& oi + (cs - pos) + nc.len() == sp_out(c0, hs, d, reps, i + 1).len()
            &&& sp_out(c0, hs, d, reps, i + 1).len() <= c1.len()
            &&& c1.subrange(oi, oi + (cs - pos)) == c0.subrange(pos, cs)
            &&& c1.subrange(oi + (cs - pos), oi + (cs - pos) + nc.len()) == nc
        }),
{
    let n = hs.len() as int;
    lemma_out_len(c0, hs, d, reps, i);
    lemma_cores_prefix(c0, hs, d, reps, i + 1, n);
    lemma_out_grows(c0, hs, d, reps, i + 1, n);
    let oi = sp_out(c0, hs, d, reps, i);
    let pos = sp_pos(hs, d, reps, i);
    let cs = rep_core_start(hs[i], reps[i]);
    let nc = deep(v_new_core(hs[i], d, reps[i]->fuzz as int));
    assert(sp_pos(hs, d, reps, i) <= rep_core_start(hs[i], reps[i]));
    assert(sp_out(c0, hs, d, reps, i + 1) == oi + c0.subrange(pos, cs) + nc);
    lemma_seq_segments(oi, c0.subrange(pos, cs), nc, sp_out(c0, hs, d, reps, n), c0.subrange(sp_pos(hs, d, reps, n), c0.len() as int));
}

/// the applied hunks really removed what stood at their changed lines (from the matching phase)
#[verifier::opaque]
pub open spec fn cores_match(c0: Seq<Seq<u8>>, hs: Seq<Hunk<&[u8]>>, d: PatchDirection, reps: Seq<HunkApplyReport>, n: int) -> bool {
    forall|i: int| 0 <= i < n && (#[trigger] reps[i]) is Applied ==>
        c0.subrange(rep_core_start(hs[i], reps[i]), rep_core_end(hs[i], d, reps[i])) == deep(v_old_core(hs[i], d, reps[i]->fuzz as int))
}

/// the report rollback mode must produce for a hunk when undoing report r (direction opp(d))
pub open spec fn undo_report(h: Hunk<&[u8]>, d: PatchDirection, r: HunkApplyReport) -> HunkApplyReport {
    match r {
        HunkApplyReport::Applied { fuzz, rollback_line, .. } => applied_report(h, opp(d), fuzz as int, rollback_line as int),
        _ => HunkApplyReport::Skipped,
    }
}
#[verifier::opaque]
pub open spec fn undo_like(hs: Seq<Hunk<&[u8]>>, d: PatchDirection, reps: Seq<HunkApplyReport>, und: Seq<HunkApplyReport>) -> bool {
    &&& und.len() == reps.len()
    &&& forall|i: int| 0 <= i < reps.len() ==> norm(#[trigger] und[i]) == undo_report(hs[i], d, reps[i])
}

/// one step of the undo induction: facts about hunk i seen from the patched file
pub proof fn lemma_undo_step(c0: Seq<Seq<u8>>, hs: Seq<Hunk<&[u8]>>, d: PatchDirection, reps: Seq<HunkApplyReport>, und: Seq<HunkApplyReport>, i: int)
    requires
        applied_state(c0, hs, d, reps),
        cores_match(c0, hs, d, reps, hs.len() as int),
        undo_like(hs, d, reps, und),
        0 <= i < hs.len(),
    ensures
        !(reps[i] is Applied) ==> !(und[i] is Applied),
        reps[i] is Applied ==> ({
            let c1 = splice_spec(c0, hs, d, reps);
            let oi = sp_out(c0, hs, d, reps, i).len() as int;
            let pos = sp_pos(hs, d, reps, i);
            let cs = rep_core_start(hs[i], reps[i]);
            let ce = rep_core_end(hs[i], d, reps[i]);
            &&& und[i] is Applied
            &&& rep_core_start(hs[i], und[i]) == oi + (cs - pos)
            &&& rep_core_end(hs[i], opp(d), und[i]) == sp_out(c0, hs, d, reps, i + 1).len()
            &&& 0 <= pos <= cs <= ce <= c0.len()
            &&& c1.subrange(oi, oi + (cs - pos)) == c0.subrange(pos, cs)
            &&& deep(v_new_core(hs[i], opp(d), und[i]->fuzz as int)) == c0.subrange(cs, ce)
            &&& sp_pos(hs, d, reps, i + 1) == ce
        }),
{
    reveal(applied_state);
    reveal(cores_match);
    reveal(undo_like);
    let n = hs.len() as int;
    assert(norm(und[i]) == undo_report(hs[i], d, reps[i]));
    if reps[i] is Applied {
        let h = hs[i];
        let f = reps[i]->fuzz as int;
        assert(hunk_wf(h));
        lemma_patched_segments(c0, hs, d, reps, i);
        lemma_view_opposite(h, d, f);
        lemma_out_len(c0, hs, d, reps, i);
        lemma_cores_prefix(c0, hs, d, reps, i, n);
        lemma_total_mono(hs, i, n);
        assert(norm(reps[i]) == applied_report(h, d, f, reps[i]->line as int));
        assert(reps[i]->rollback_line == reps[i]->line + sp_moff(c0, hs, d, reps, i));
        assert(und[i]->fuzz == reps[i]->fuzz);
        assert(und[i]->line == reps[i]->rollback_line);
    }
}

pub proof fn lemma_applied_pos(c0: Seq<Seq<u8>>, hs: Seq<Hunk<&[u8]>>, d: PatchDirection, reps: Seq<HunkApplyReport>, i: int)
    requires applied_state(c0, hs, d, reps), 0 <= i <= hs.len()
    ensures
        0 <= sp_pos(hs, d, reps, i) <= c0.len(),
        sp_out(c0, hs, d, reps, i).len() + c0.len() - sp_pos(hs, d, reps, i) >= 0,
        splice_spec(c0, hs, d, reps).len() == sp_out(c0, hs, d, reps, hs.len() as int).len() + c0.len() - sp_pos(hs, d, reps, hs.len() as int),
{
    reveal(applied_state);
    lemma_cores_prefix(c0, hs, d, reps, i, hs.len() as int);
    lemma_out_len(c0, hs, d, reps, i);
    lemma_out_len(c0, hs, d, reps, hs.len() as int);
}

pub proof fn lemma_undo_prefix(c0: Seq<Seq<u8>>, hs: Seq<Hunk<&[u8]>>, d: PatchDirection, reps: Seq<HunkApplyReport>, und: Seq<HunkApplyReport>, i: int)
    requires
        applied_state(c0, hs, d, reps),
        cores_match(c0, hs, d, reps, hs.len() as int),
        undo_like(hs, d, reps, und),
        0 <= i <= hs.len(),
    ensures
        st_frozen(hs, opp(d), und, i) == (if st_frozen(hs, d, reps, i) == -1 { -1 } else { sp_out(c0, hs, d, reps, i).len() as int }),
        sp_pos(hs, opp(d), und, i) == sp_out(c0, hs, d, reps, i).len(),
        sp_out(splice_spec(c0, hs, d, reps), hs, opp(d), und, i) == c0.subrange(0, sp_pos(hs, d, reps, i)),
        0 <= sp_pos(hs, d, reps, i) <= c0.len(),
    decreases i
{
    let c1 = splice_spec(c0, hs, d, reps);
    lemma_applied_pos(c0, hs, d, reps, i);
    if i == 0 {
        assert(sp_out(c1, hs, opp(d), und, 0) =~= c0.subrange(0, 0));
    } else {
        lemma_undo_prefix(c0, hs, d, reps, und, i - 1);
        lemma_undo_step(c0, hs, d, reps, und, i - 1);
        lemma_applied_pos(c0, hs, d, reps, i - 1);
        if reps[i - 1] is Applied {
            let pos = sp_pos(hs, d, reps, i - 1);
            let cs = rep_core_start(hs[i - 1], reps[i - 1]);
            let ce = rep_core_end(hs[i - 1], d, reps[i - 1]);
            assert(c0.subrange(0, pos) + c0.subrange(pos, cs) + c0.subrange(cs, ce) =~= c0.subrange(0, ce));
        }
    }
}

/// C04 (modifications): rollback mode on the patched file reproduces the original exactly
pub proof fn lemma_undo_modify(c0: Seq<Seq<u8>>, hs: Seq<Hunk<&[u8]>>, d: PatchDirection, reps: Seq<HunkApplyReport>, und: Seq<HunkApplyReport>)
    requires
        applied_state(c0, hs, d, reps),
        cores_match(c0, hs, d, reps, hs.len() as int),
        undo_like(hs, d, reps, und),
    ensures
        splice_spec(splice_spec(c0, hs, d, reps), hs, opp(d), und) == c0,
{
    let n = hs.len() as int;
    let c1 = splice_spec(c0, hs, d, reps);
    lemma_undo_prefix(c0, hs, d, reps, und, n);
    lemma_applied_pos(c0, hs, d, reps, n);
    let on = sp_out(c0, hs, d, reps, n);
    let pn = sp_pos(hs, d, reps, n);
    assert(c1.subrange(on.len() as int, c1.len() as int) =~= c0.subrange(pn, c0.len() as int));
    assert(c0.subrange(0, pn) + c0.subrange(pn, c0.len() as int) =~= c0);
}

// ---------------------------------------------------------------- from apply's postcondition to the undo lemmas

/// a hunk reported applied in normal mode removed exactly what stood at its changed lines
pub proof fn lemma_normal_cores_match(hs: Seq<Hunk<&[u8]>>, d: PatchDirection, limit: int, c0: Seq<Seq<u8>>, deleted: bool, reps: Seq<HunkApplyReport>)
    requires
        reps.len() == hs.len(), hunks_wf(hs),
        reports_normal(hs, d, limit, c0, deleted, reps, hs.len() as int),
        reports_shape(hs, d, reps, hs.len() as int),
    ensures
        cores_match(c0, hs, d, reps, hs.len() as int),
        deleted ==> forall|i: int| 0 <= i < hs.len() ==> !((#[trigger] reps[i]) is Applied),
{
    reveal(cores_match);
    reveal(try_result);
    reveal(placed_at);
    let n = hs.len() as int;
    assert forall|i: int| 0 <= i < n && (#[trigger] reps[i]) is Applied implies
        !deleted && c0.subrange(rep_core_start(hs[i], reps[i]), rep_core_end(hs[i], d, reps[i])) == deep(v_old_core(hs[i], d, reps[i]->fuzz as int)) by {
        let h = hs[i];
        let r = norm(reps[i]);
        let f = r->fuzz as int;
        let line = r->line as int;
        assert(hunk_wf(h));
        assert(hunk_result(h, d, limit, c0, deleted, st_off(reps, i), st_frozen(hs, d, reps, i), r));
        assert(try_result(h, d, f, c0, deleted, st_off(reps, i), st_frozen(hs, d, reps, i), r));
        let needle = deep(v_old(h, d, f));
        assert(matches_at(needle, c0, line));
        let pc = v_pc(h, f);
        let sc = v_sc(h, f);
        assert(c0.subrange(line, line + needle.len()).subrange(pc, needle.len() - sc) =~= c0.subrange(line + pc, line + needle.len() - sc));
        assert(needle.subrange(pc, needle.len() - sc) =~= deep(v_old_core(h, d, f)));
    }
}

/// rollback mode's precondition follows from what a normal application leaves behind
pub proof fn lemma_applied_gives_rollback_pre(c0: Seq<Seq<u8>>, hs: Seq<Hunk<&[u8]>>, d: PatchDirection, reps: Seq<HunkApplyReport>)
    requires applied_state(c0, hs, d, reps)
    ensures rollback_pre(hs, opp(d), reps, splice_spec(c0, hs, d, reps).len() as int)
{
    reveal(applied_state);
    let n = hs.len() as int;
    assert forall|i: int| 0 <= i < n && (#[trigger] reps[i]) is Applied implies -BIG() < reps[i]->rollback_line < 2 * BIG() by {
        lemma_cores_prefix(c0, hs, d, reps, i, n);
        lemma_out_len(c0, hs, d, reps, i);
        lemma_total_mono(hs, i, n);
        assert(hunk_wf(hs[i]));
        assert(norm(reps[i]) == applied_report(hs[i], d, reps[i]->fuzz as int, reps[i]->line as int));
        assert(reps[i]->rollback_line == reps[i]->line + sp_moff(c0, hs, d, reps, i));
        assert(sp_pos(hs, d, reps, i) <= rep_core_start(hs[i], reps[i]));
    }
    assert forall|i: int, j: int| 0 <= i < j < n && (#[trigger] reps[i]) is Applied && (#[trigger] reps[j]) is Applied implies
        reps[i]->rollback_line + v_old(hs[i], opp(d), reps[i]->fuzz as int).len() - v_sc(hs[i], reps[i]->fuzz as int)
        <= reps[j]->rollback_line + v_pc(hs[j], reps[j]->fuzz as int) by {
        lemma_view_opposite(hs[i], d, reps[i]->fuzz as int);
        lemma_patched_segments(c0, hs, d, reps, i);
        lemma_patched_segments(c0, hs, d, reps, j);
        lemma_cores_prefix(c0, hs, d, reps, j, n);
        lemma_out_grows(c0, hs, d, reps, i + 1, j);
        assert(hunk_wf(hs[i]));
        assert(norm(reps[i]) == applied_report(hs[i], d, reps[i]->fuzz as int, reps[i]->line as int));
    }
}

/// accessor: what applied_state says in general and about hunk i
pub proof fn lemma_applied_state_at(c0: Seq<Seq<u8>>, hs: Seq<Hunk<&[u8]>>, d: PatchDirection, reps: Seq<HunkApplyReport>, i: int)
    requires applied_state(c0, hs, d, reps), 0 <= i < hs.len()
    ensures
        reps.len() == hs.len(), hunks_wf(hs), hunk_wf(hs[i]),
        cores_ordered(c0.len() as int, hs, d, reps, hs.len() as int),
        reps[i] is Applied ==> norm(reps[i]) == applied_report(hs[i], d, reps[i]->fuzz as int, reps[i]->line as int)
                               && reps[i]->rollback_line == reps[i]->line + sp_moff(c0, hs, d, reps, i),
{
    reveal(applied_state);
    let _ = reps[i];
}

pub proof fn lemma_applied_state_len(c0: Seq<Seq<u8>>, hs: Seq<Hunk<&[u8]>>, d: PatchDirection, reps: Seq<HunkApplyReport>)
    requires applied_state(c0, hs, d, reps)
    ensures reps.len() == hs.len()
{
    reveal(applied_state);
}

/// hunk i, seen from the patched file: rollback mode finds it again at its recorded line (or skips it if it had failed)
pub proof fn lemma_rollback_applied_at(c0: Seq<Seq<u8>>, hs: Seq<Hunk<&[u8]>>, d: PatchDirection, reps: Seq<HunkApplyReport>, und: Seq<HunkApplyReport>, i: int)
    requires
        applied_state(c0, hs, d, reps),
        und.len() == hs.len(), 0 <= i < hs.len(),
        reports_rollback(hs, opp(d), reps, splice_spec(c0, hs, d, reps), false, und, hs.len() as int),
    ensures
        norm(und[i]) == undo_report(hs[i], d, reps[i]),
        !(und[i] is Failed),
{
    let c1 = splice_spec(c0, hs, d, reps);
    lemma_applied_state_at(c0, hs, d, reps, i);
    let _ = und[i];
    if reps[i] is Applied {
        let h = hs[i];
        let f = reps[i]->fuzz as int;
        lemma_view_opposite(h, d, f);
        lemma_patched_segments(c0, hs, d, reps, i);
        let nc = deep(v_new_core(h, d, f));
        let at = reps[i]->rollback_line + v_pc(h, f);
        assert(at == sp_out(c0, hs, d, reps, i).len() + (rep_core_start(h, reps[i]) - sp_pos(hs, d, reps, i)));
        assert(c1.subrange(at, at + nc.len()) == nc);
        assert(matches_at(deep(v_old_core(h, opp(d), f)), c1, at));
    }
}

/// on the patched file, rollback mode finds every applied hunk again: its reports are exactly the undo reports
pub proof fn lemma_rollback_all_applied(c0: Seq<Seq<u8>>, hs: Seq<Hunk<&[u8]>>, d: PatchDirection, reps: Seq<HunkApplyReport>, und: Seq<HunkApplyReport>)
    requires
        applied_state(c0, hs, d, reps),
        und.len() == hs.len(),
        reports_rollback(hs, opp(d), reps, splice_spec(c0, hs, d, reps), false, und, hs.len() as int),
    ensures
        undo_like(hs, d, reps, und),
        !any_failed_spec(und, hs.len() as int),
{
    reveal(undo_like);
    let n = hs.len() as int;
    lemma_applied_state_len(c0, hs, d, reps);
    assert forall|i: int| 0 <= i < n implies norm(#[trigger] und[i]) == undo_report(hs[i], d, reps[i]) && !(und[i] is Failed) by {
        lemma_rollback_applied_at(c0, hs, d, reps, und, i);
    }
    lemma_no_failed(und, n);
}

pub proof fn lemma_no_failed(reports: Seq<HunkApplyReport>, n: int)
    requires 0 <= n <= reports.len(), forall|i: int| 0 <= i < n ==> !((#[trigger] reports[i]) is Failed)
    ensures !any_failed_spec(reports, n)
    decreases n
{
    if n > 0 { lemma_no_failed(reports, n - 1); }
}
