// Ghost vocabulary for hunks and hunk views (DESIGN.md section 4).  Written from
// the statements of C02/C03/C20, not from the code.

pub open spec fn smax(a: int, b: int) -> int { if a >= b { a } else { b } }
pub open spec fn smin(a: int, b: int) -> int { if a <= b { a } else { b } }
pub open spec fn ssub(a: int, b: int) -> int { if a >= b { a - b } else { 0 } }

pub open spec fn BIG() -> int { 0x1000_0000_0000_0000 }
/// bound on hunk start lines: the parser accepts header line numbers up to isize::MAX/2 = 2^62 - 1 (parse_hunk)
pub open spec fn LBIG() -> int { 0x4000_0000_0000_0000 }

/// Well-formed hunk: the declared context really is context on both sides.
pub open spec fn hunk_wf<L>(h: Hunk<L>) -> bool {
    let p = h.prefix_context as int;
    let s = h.suffix_context as int;
    let rem = h.remove.content@;
    let add = h.add.content@;
    &&& p + s <= rem.len()
    &&& p + s <= add.len()
    &&& rem.len() < BIG() && add.len() < BIG()
    &&& 0 <= h.remove.target_line < LBIG()
    &&& 0 <= h.add.target_line < LBIG()
    &&& forall|i: int| 0 <= i < p ==> #[trigger] rem[i] == add[i]
    &&& forall|i: int| rem.len() - s <= i < rem.len() ==> #[trigger] rem[i] == add[i - rem.len() + add.len()]
}

/// "at most F context lines trimmed from the ends, never a changed line":
/// the amount of context that remains at fuzz level f, and the per-side trims.
pub open spec fn fz_remaining(p: int, s: int, f: int) -> int { ssub(smax(p, s), f) }
pub open spec fn fz_prefix(p: int, s: int, f: int) -> int { ssub(p, fz_remaining(p, s, f)) }
pub open spec fn fz_suffix(p: int, s: int, f: int) -> int { ssub(s, fz_remaining(p, s, f)) }

pub open spec fn old_side<L>(h: Hunk<L>, d: PatchDirection) -> Seq<L> {
    match d { PatchDirection::Forward => h.remove.content@, PatchDirection::Revert => h.add.content@ }
}
pub open spec fn new_side<L>(h: Hunk<L>, d: PatchDirection) -> Seq<L> {
    match d { PatchDirection::Forward => h.add.content@, PatchDirection::Revert => h.remove.content@ }
}
pub open spec fn old_start<L>(h: Hunk<L>, d: PatchDirection) -> int {
    match d { PatchDirection::Forward => h.remove.target_line as int, PatchDirection::Revert => h.add.target_line as int }
}
pub open spec fn new_start<L>(h: Hunk<L>, d: PatchDirection) -> int {
    match d { PatchDirection::Forward => h.add.target_line as int, PatchDirection::Revert => h.remove.target_line as int }
}

/// View of hunk h in direction d at fuzz level f (pure function of those three).
pub open spec fn v_pf<L>(h: Hunk<L>, f: int) -> int { fz_prefix(h.prefix_context as int, h.suffix_context as int, f) }
pub open spec fn v_sf<L>(h: Hunk<L>, f: int) -> int { fz_suffix(h.prefix_context as int, h.suffix_context as int, f) }
pub open spec fn v_old<L>(h: Hunk<L>, d: PatchDirection, f: int) -> Seq<L> {
    old_side(h, d).subrange(v_pf(h, f), old_side(h, d).len() - v_sf(h, f))
}
pub open spec fn v_new<L>(h: Hunk<L>, d: PatchDirection, f: int) -> Seq<L> {
    new_side(h, d).subrange(v_pf(h, f), new_side(h, d).len() - v_sf(h, f))
}
/// context lines remaining in the view
pub open spec fn v_pc<L>(h: Hunk<L>, f: int) -> int { h.prefix_context as int - v_pf(h, f) }
pub open spec fn v_sc<L>(h: Hunk<L>, f: int) -> int { h.suffix_context as int - v_sf(h, f) }

pub open spec fn v_position<L>(h: Hunk<L>, d: PatchDirection, f: int) -> HunkPosition {
    if v_pc(h, f) < v_sc(h, f) && new_start(h, d) == 0 { HunkPosition::Start }
    else if v_pc(h, f) > v_sc(h, f) { HunkPosition::End }
    else { HunkPosition::Middle }
}

/// Relation between an executable HunkView and the abstract view (h, d, f).
pub open spec fn view_is<L>(v: HunkView<L>, h: Hunk<L>, d: PatchDirection, f: int) -> bool {
    &&& *v.hunk == h
    &&& v.direction == d
    &&& v.fuzz as int == f
    &&& v.prefix_fuzz as int == v_pf(h, f)
    &&& v.suffix_fuzz as int == v_sf(h, f)
}

/// Invariant of an executable view: it is the abstract view of its own hunk and the hunk is well formed.
pub open spec fn view_wf<L>(v: HunkView<L>) -> bool {
    &&& hunk_wf(*v.hunk)
    &&& view_is(v, *v.hunk, v.direction, v.fuzz as int)
}
