// Ghost vocabulary for hunk placement (C02), written from the property statement.
// A file is a sequence of lines, a line a sequence of bytes.

pub open spec fn deep(s: Seq<&[u8]>) -> Seq<Seq<u8>> { s.map_values(|l: &[u8]| l@) }

pub open spec fn sabs(a: int) -> int { if a >= 0 { a } else { -a } }

/// needle occupies exactly the lines hay[at .. at+|needle|]
pub open spec fn matches_at(needle: Seq<Seq<u8>>, hay: Seq<Seq<u8>>, at: int) -> bool {
    0 <= at && at + needle.len() <= hay.len() && hay.subrange(at, at + needle.len()) == needle
}

/// p is the match nearest to the expected line g, forward winning ties.
pub open spec fn nearest(needle: Seq<Seq<u8>>, hay: Seq<Seq<u8>>, g: int, p: int) -> bool {
    &&& matches_at(needle, hay, p)
    &&& forall|q: int| #[trigger] matches_at(needle, hay, q) ==>
            sabs(q - g) > sabs(p - g) || (sabs(q - g) == sabs(p - g) && (q == p || p > g))
}

/// expected line for the view (h,d,f): stated line (+ previous offset), or the anchor when tied to start/end of file
pub open spec fn guess(h: Hunk<&[u8]>, d: PatchDirection, f: int, n: int, off: int) -> int {
    match v_position(h, d, f) {
        HunkPosition::Start => old_start(h, d),
        HunkPosition::Middle => old_start(h, d) + off,
        HunkPosition::End => n - v_old(h, d, f).len(),
    }
}

/// The placement rule of C02 for one fuzz level: position p is the one the documented rules select.
#[verifier::opaque]
pub open spec fn placed_at(h: Hunk<&[u8]>, d: PatchDirection, f: int, c: Seq<Seq<u8>>, off: int, p: int) -> bool {
    let needle = deep(v_old(h, d, f));
    let g = guess(h, d, f, c.len() as int, off);
    if v_position(h, d, f) == HunkPosition::Middle { nearest(needle, c, g, p) } else { p == g && matches_at(needle, c, g) }
}

/// No admissible position matches at this fuzz level.
#[verifier::opaque]
pub open spec fn no_place(h: Hunk<&[u8]>, d: PatchDirection, f: int, c: Seq<Seq<u8>>, off: int) -> bool {
    let needle = deep(v_old(h, d, f));
    let g = guess(h, d, f, c.len() as int, off);
    if v_position(h, d, f) == HunkPosition::Middle { forall|q: int| !#[trigger] matches_at(needle, c, q) } else { !matches_at(needle, c, g) }
}

pub open spec fn applied_report(h: Hunk<&[u8]>, d: PatchDirection, f: int, p: int) -> HunkApplyReport {
    HunkApplyReport::Applied {
        line: p as isize,
        rollback_line: p as isize,
        offset: (p - old_start(h, d)) as isize,
        line_count_diff: (v_new(h, d, f).len() - v_old(h, d, f).len()) as isize,
        fuzz: f as usize,
    }
}

/// Result of trying view (h,d,f) on file c (C02, one level).  `frozen` = last line changed by the previous hunk.
#[verifier::opaque]
pub open spec fn try_result(h: Hunk<&[u8]>, d: PatchDirection, f: int, c: Seq<Seq<u8>>, deleted: bool, off: int, frozen: int,
                            r: HunkApplyReport) -> bool {
    if deleted {
        r == HunkApplyReport::Failed(HunkApplyFailureReason::FileDoesNotExist)
    } else {
        match r {
            HunkApplyReport::Applied { line, .. } =>
                placed_at(h, d, f, c, off, line as int) && line + v_pc(h, f) > frozen && r == applied_report(h, d, f, line as int),
            HunkApplyReport::Failed(HunkApplyFailureReason::NoMatchingLines) => no_place(h, d, f, c, off),
            HunkApplyReport::Failed(HunkApplyFailureReason::MisorderedHunks) =>
                exists|p: int| #[trigger] placed_at(h, d, f, c, off, p) && p + v_pc(h, f) <= frozen,
            _ => false,
        }
    }
}

/// The lines of a view that the hunk really changes (view minus remaining context).
pub open spec fn v_old_core<'x>(h: Hunk<&'x [u8]>, d: PatchDirection, f: int) -> Seq<&'x [u8]> {
    v_old(h, d, f).subrange(v_pc(h, f), v_old(h, d, f).len() - v_sc(h, f))
}
pub open spec fn v_new_core<'x>(h: Hunk<&'x [u8]>, d: PatchDirection, f: int) -> Seq<&'x [u8]> {
    v_new(h, d, f).subrange(v_pc(h, f), v_new(h, d, f).len() - v_sc(h, f))
}

/// Rollback mode: the hunk goes back exactly where the report says (rl = recorded line of the view start; only the
/// changed lines are compared), or fails.
pub open spec fn rollback_result(h: Hunk<&[u8]>, d: PatchDirection, f: int, c: Seq<Seq<u8>>, deleted: bool, rl: int,
                                 r: HunkApplyReport) -> bool {
    if deleted {
        r == HunkApplyReport::Failed(HunkApplyFailureReason::FileDoesNotExist)
    } else if matches_at(deep(v_old_core(h, d, f)), c, rl + v_pc(h, f)) {
        r == applied_report(h, d, f, rl)
    } else {
        r == HunkApplyReport::Failed(HunkApplyFailureReason::NoMatchingLines)
    }
}

pub open spec fn is_applied(r: HunkApplyReport) -> bool { r is Applied }

// ------------------------------------------------------------------ slice equality of line vectors

pub broadcast proof fn lemma_lines_eq(a: &[&[u8]], b: &[&[u8]])
    ensures #[trigger] (*a).eq_spec(&*b) == (deep(a@) == deep(b@))
{
    if (*a).eq_spec(&*b) {
        assert(a.len() == b.len());
        assert forall |i: int| 0 <= i < a.len() implies deep(a@)[i] == deep(b@)[i] by {
            assert(<&[u8] as PartialEqSpec<&[u8]>>::eq_spec(&a@[i], &b@[i]));
            assert(a[i]@ =~= b[i]@);
        }
        assert(deep(a@) =~= deep(b@));
    }
    if deep(a@) == deep(b@) {
        assert(deep(a@).len() == deep(b@).len());
        assert forall |i: int| 0 <= i < a.len() implies #[trigger] <&[u8] as PartialEqSpec<&[u8]>>::eq_spec(&a@[i], &b@[i]) by {
            assert(deep(a@)[i] == deep(b@)[i]);
            assert(a[i]@ =~= b[i]@);
        }
    }
}
