// Lemmas about the candidate order of the forward/backward scan (C02): the interleaving of g+1..=m and
// g-1..=0 visits every position except g, nearest first, forward before backward at equal distance.

pub open spec fn il_closed<T>(a: Seq<T>, b: Seq<T>, j: int) -> T {
    let n = smin(a.len() as int, b.len() as int);
    if j < 2 * n { if j % 2 == 0 { a[j / 2] } else { b[j / 2] } }
    else if a.len() > b.len() { a[j - n] }
    else { b[j - n] }
}

pub proof fn lemma_il_len<T>(a: Seq<T>, b: Seq<T>)
    ensures interleave_seq(a, b).len() == a.len() + b.len()
    decreases a.len() + b.len()
{
    if a.len() != 0 {
        lemma_il_len(b, a.subrange(1, a.len() as int));
    }
}

pub proof fn lemma_il_index<T>(a: Seq<T>, b: Seq<T>, j: int)
    requires 0 <= j < a.len() + b.len()
    ensures interleave_seq(a, b)[j] == il_closed(a, b, j)
    decreases a.len() + b.len()
{
    lemma_il_len(a, b);
    if a.len() != 0 {
        let a1 = a.subrange(1, a.len() as int);
        lemma_il_len(b, a1);
        if j > 0 {
            lemma_il_index(b, a1, j - 1);
            assert(interleave_seq(a, b)[j] == interleave_seq(b, a1)[j - 1]);
            assert(il_closed(b, a1, j - 1) == il_closed(a, b, j));
        }
    }
}



/// a = g+1, g+2, .., m   and   b = g-1, g-2, .., 0
pub open spec fn cand_ok(a: Seq<isize>, b: Seq<isize>, g: int, m: int) -> bool {
    &&& a.len() == smax(0, m - g)
    &&& forall|i: int| 0 <= i < a.len() ==> #[trigger] a[i] == g + 1 + i
    &&& b.len() == smax(0, g)
    &&& forall|i: int| 0 <= i < b.len() ==> #[trigger] b[i] == g - 1 - i
}

/// x comes strictly before y in "nearest first, forward wins ties" order around g
pub open spec fn key_lt(x: int, y: int, g: int) -> bool {
    sabs(x - g) < sabs(y - g) || (sabs(x - g) == sabs(y - g) && x > g && y < g)
}

pub proof fn lemma_cand_order(a: Seq<isize>, b: Seq<isize>, g: int, m: int, i: int, j: int)
    requires cand_ok(a, b, g, m), 0 <= i < j < a.len() + b.len()
    ensures key_lt(interleave_seq(a, b)[i] as int, interleave_seq(a, b)[j] as int, g)
{
    lemma_il_index(a, b, i);
    lemma_il_index(a, b, j);
}

pub open spec fn cand_idx(g: int, m: int, q: int) -> int {
    let al = smax(0, m - g);
    let bl = smax(0, g);
    let n = smin(al, bl);
    if q > g {
        let d = q - g - 1;
        if d < n { 2 * d } else { d + n }
    } else {
        let d = g - 1 - q;
        if d < n { 2 * d + 1 } else { d + n }
    }
}

pub proof fn lemma_cand_complete(a: Seq<isize>, b: Seq<isize>, g: int, m: int, q: int)
    requires cand_ok(a, b, g, m), 0 <= q <= m, q != g
    ensures 0 <= cand_idx(g, m, q) < a.len() + b.len(), interleave_seq(a, b)[cand_idx(g, m, q)] == q
{
    lemma_il_index(a, b, cand_idx(g, m, q));
}


pub proof fn lemma_first_match_nearest(needle: Seq<Seq<u8>>, hay: Seq<Seq<u8>>, g: int, m: int, a: Seq<isize>, b: Seq<isize>, k: int)
    requires
        cand_ok(a, b, g, m),
        m == hay.len() - needle.len(),
        m >= 0,
        !matches_at(needle, hay, g),
        0 <= k < a.len() + b.len(),
        matches_at(needle, hay, interleave_seq(a, b)[k] as int),
        forall|j: int| 0 <= j < k ==> !matches_at(needle, hay, #[trigger] interleave_seq(a, b)[j] as int),
    ensures
        nearest(needle, hay, g, interleave_seq(a, b)[k] as int),
{
    let s = interleave_seq(a, b);
    let p = s[k] as int;
    assert forall|q: int| #[trigger] matches_at(needle, hay, q) implies
        sabs(q - g) > sabs(p - g) || (sabs(q - g) == sabs(p - g) && (q == p || p > g)) by {
        lemma_cand_complete(a, b, g, m, q);
        let i = cand_idx(g, m, q);
        if i < k {
            assert(!matches_at(needle, hay, s[i] as int));
        } else if i > k {
            lemma_cand_order(a, b, g, m, k, i);
        }
    }
}

pub proof fn lemma_no_match_anywhere(needle: Seq<Seq<u8>>, hay: Seq<Seq<u8>>, g: int, m: int, a: Seq<isize>, b: Seq<isize>)
    requires
        cand_ok(a, b, g, m),
        m == hay.len() - needle.len(),
        m >= 0,
        !matches_at(needle, hay, g),
        forall|j: int| 0 <= j < a.len() + b.len() ==> !matches_at(needle, hay, #[trigger] interleave_seq(a, b)[j] as int),
    ensures
        forall|q: int| !#[trigger] matches_at(needle, hay, q),
{
    let s = interleave_seq(a, b);
    assert forall|q: int| !#[trigger] matches_at(needle, hay, q) by {
        if matches_at(needle, hay, q) {
            lemma_cand_complete(a, b, g, m, q);
            let i = cand_idx(g, m, q);
            assert(!matches_at(needle, hay, s[i] as int));
        }
    }
}

