// C01 L4: which kind a file patch is taken for (shared by the parser unit, which proves recognize_kind == kind_spec,
// and by the C01 unit, which states what C01 needs from it).

// ---------------------------------------------------------------------------------------------- C01 L4: kind inference

/// A file patch creates (deletes) a file only if it consists of a single hunk without context whose old (new) side
/// is empty, whose other side is not, and whose empty side is at line 0 ("-0,0" / "+0,0"); everything else modifies.
pub open spec fn kind_spec<'a>(hunks: Seq<Hunk<'a, &'a [u8]>>) -> FilePatchKind {
    if hunks.len() == 1 && hunks[0].prefix_context == 0 && hunks[0].suffix_context == 0 {
        let h = hunks[0];
        let n_old = h.remove.content@.len();
        let n_new = h.add.content@.len();
        if n_new == 0 && n_old > 0 && h.add.target_line == 0 {
            FilePatchKind::Delete
        } else if n_old == 0 && n_new > 0 && h.remove.target_line == 0 {
            FilePatchKind::Create
        } else {
            FilePatchKind::Modify
        }
    } else {
        FilePatchKind::Modify
    }
}
