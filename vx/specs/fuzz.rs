// C20: raising the fuzz limit never changes an application that already succeeded.  Spec-level lemmas over the
// contract of apply_modify (reports_normal): levels are tried upwards from 0 and the first admissible one wins, the
// view of a level does not depend on the limit, and the placement within a level is unique.

/// a hunk that applies under limit f1 gets the identical report under any limit f2 >= f1 (same threaded state)
pub proof fn lemma_fuzz_monotone_hunk(h: Hunk<&[u8]>, d: PatchDirection, f1: int, f2: int, c: Seq<Seq<u8>>, deleted: bool, off: int, frozen: int,
                                      r1: HunkApplyReport, r2: HunkApplyReport)
    requires
        0 <= f1 <= f2,
        hunk_result(h, d, f1, c, deleted, off, frozen, r1),
        hunk_result(h, d, f2, c, deleted, off, frozen, r2),
        r1 is Applied,
        r1 == norm(r1), r2 == norm(r2),
    ensures
        r2 == r1,
{
    let l1 = r1->fuzz as int;
    // the level r1 used is admissible
    assert(applies_at(h, d, l1, c, deleted, off, frozen)) by {
        reveal(applies_at);
        reveal(try_result);
        assert(placed_at(h, d, l1, c, off, r1->line as int));
    }
    assert(l1 <= top_level(h, f2));
    match r2 {
        HunkApplyReport::Applied { .. } => {
            let l2 = r2->fuzz as int;
            assert(applies_at(h, d, l2, c, deleted, off, frozen)) by {
                reveal(applies_at);
                reveal(try_result);
                assert(placed_at(h, d, l2, c, off, r2->line as int));
            }
            assert(l1 == l2);
            reveal(try_result);
            lemma_placed_unique(h, d, l1, c, off, r1->line as int, r2->line as int);
        },
        HunkApplyReport::Failed(_) => {
            assert(false);   // contradiction: no level up to top_level(h, f2) is admissible, but l1 is
        },
        HunkApplyReport::Skipped => {},
    }
}

/// C20 for one file patch: same hunk reports (up to the rollback line, which follows) under the larger limit
pub proof fn lemma_fuzz_monotone_prefix(hs: Seq<Hunk<&[u8]>>, d: PatchDirection, f1: int, f2: int, c: Seq<Seq<u8>>, deleted: bool,
                                        r1: Seq<HunkApplyReport>, r2: Seq<HunkApplyReport>, n: int)
    requires
        0 <= f1 <= f2, 0 <= n <= hs.len(), r1.len() == hs.len(), r2.len() == hs.len(),
        reports_normal(hs, d, f1, c, deleted, r1, hs.len() as int),
        reports_normal(hs, d, f2, c, deleted, r2, hs.len() as int),
        forall|i: int| 0 <= i < hs.len() ==> (#[trigger] r1[i]) is Applied,
    ensures
        forall|i: int| 0 <= i < n ==> norm(#[trigger] r2[i]) == norm(r1[i]),
    decreases n
{
    if n > 0 {
        lemma_fuzz_monotone_prefix(hs, d, f1, f2, c, deleted, r1, r2, n - 1);
        let i = n - 1;
        assert forall|m: int| 0 <= m < i implies norm(#[trigger] r1[m]) == norm(r2[m]) by { assert(norm(r2[m]) == norm(r1[m])); }
        lemma_norm_state(c, hs, d, r1, r2, i);
        assert(r1[i] is Applied);
        assert(hunk_result(hs[i], d, f1, c, deleted, st_off(r1, i), st_frozen(hs, d, r1, i), norm(r1[i])));
        assert(hunk_result(hs[i], d, f2, c, deleted, st_off(r2, i), st_frozen(hs, d, r2, i), norm(r2[i])));
        lemma_fuzz_monotone_hunk(hs[i], d, f1, f2, c, deleted, st_off(r1, i), st_frozen(hs, d, r1, i), norm(r1[i]), norm(r2[i]));
    }
}

/// C20, statement level: an application that succeeded completely with limit f1 gives, with any limit f2 >= f1, the
/// same reports and byte-identical content.
pub proof fn lemma_fuzz_monotone(hs: Seq<Hunk<&[u8]>>, d: PatchDirection, f1: int, f2: int, c: Seq<Seq<u8>>, deleted: bool,
                                 r1: Seq<HunkApplyReport>, r2: Seq<HunkApplyReport>)
    requires
        0 <= f1 <= f2, r1.len() == hs.len(), r2.len() == hs.len(),
        reports_normal(hs, d, f1, c, deleted, r1, hs.len() as int),
        reports_normal(hs, d, f2, c, deleted, r2, hs.len() as int),
        rollback_lines_ok(c, hs, d, r1, hs.len() as int),
        rollback_lines_ok(c, hs, d, r2, hs.len() as int),
        !any_failed_spec(r1, hs.len() as int),
        forall|i: int| 0 <= i < hs.len() ==> !((#[trigger] r1[i]) is Skipped),
    ensures
        r2 =~= r1,
        splice_spec(c, hs, d, r2) == splice_spec(c, hs, d, r1),
        !any_failed_spec(r2, hs.len() as int),
{
    let n = hs.len() as int;
    lemma_all_applied(r1, n);
    lemma_fuzz_monotone_prefix(hs, d, f1, f2, c, deleted, r1, r2, n);
    assert forall|m: int| 0 <= m < n implies norm(#[trigger] r1[m]) == norm(r2[m]) by { assert(norm(r2[m]) == norm(r1[m])); }
    lemma_norm_state(c, hs, d, r1, r2, n);
    assert forall|i: int| 0 <= i < n implies r2[i] == r1[i] by {
        assert forall|m: int| 0 <= m < i implies norm(#[trigger] r1[m]) == norm(r2[m]) by { assert(norm(r2[m]) == norm(r1[m])); }
        lemma_norm_state(c, hs, d, r1, r2, i);
        assert(norm(r2[i]) == norm(r1[i]));
        assert(r1[i] is Applied && r2[i] is Applied);
        assert(r1[i]->rollback_line == r1[i]->line + sp_moff(c, hs, d, r1, i));
        assert(r2[i]->rollback_line == r2[i]->line + sp_moff(c, hs, d, r2, i));
    }
}

pub proof fn lemma_all_applied(r: Seq<HunkApplyReport>, n: int)
    requires
        0 <= n <= r.len(), !any_failed_spec(r, n),
        forall|i: int| 0 <= i < n ==> !((#[trigger] r[i]) is Skipped),
    ensures forall|i: int| 0 <= i < n ==> (#[trigger] r[i]) is Applied
    decreases n
{
    if n > 0 { lemma_all_applied(r, n - 1); }
}
