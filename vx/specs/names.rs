// Ghost vocabulary for C16 (file-name resolution), written from the statement:
//  "exactly N leading path components removed from both names" and
//  "the file patched is the old name if that file currently exists - on disk or as left by earlier patches of the
//   same run - otherwise the new name, never /dev/null".
// A name is modelled by its sequence of path components (`cow_comps`, prelude/path.rs).  Names given as /dev/null are
// represented by `None` at this level (the parser never produces a /dev/null name), so "never /dev/null" is
// "the result is one of the names that are present".

pub type Name<'a> = Seq<Component<'a>>;

/// "the old file currently exists - on disk or as left by earlier patches of the same run":
/// the in-memory state overrides the disk.
pub open spec fn exists_now<'a>(base: &Path, name: Name<'a>, mfs: Map<Name<'a>, ModifiedFile<'a>>) -> bool {
    if mfs.dom().contains(name) { !mfs[name].deleted } else { disk_exists(base, name) }
}

/// The name to patch.
pub open spec fn choose_spec<'f, 'a>(base: &Path, old: Option<&'f PathCow2<'a>>, new: Option<&'f PathCow2<'a>>,
                                     mfs: Map<Name<'a>, ModifiedFile<'a>>) -> &'f PathCow2<'a> {
    match (old, new) {
        (Some(o), None) => o,
        (None, Some(n)) => n,
        (Some(o), Some(n)) =>
            if cow_comps(*o) == cow_comps(*n) { o }
            else if exists_now(base, cow_comps(*o), mfs) { o }
            else { n },
        (None, None) => arbitrary(),
    }
}

/// "exactly N leading path components removed" (a name with fewer than N components becomes empty)
pub open spec fn strip_spec<'a>(s: Name<'a>, n: int) -> Name<'a> {
    if n <= s.len() { s.subrange(n, s.len() as int) } else { Seq::empty() }
}
pub open spec fn strip_name_spec<'a>(before: Option<PathCow2<'a>>, after: Option<PathCow2<'a>>, n: int) -> bool {
    match before {
        None => after is None,
        Some(b) => after matches Some(a) && cow_comps(a) == strip_spec(cow_comps(b), n),
    }
}
