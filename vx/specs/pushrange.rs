// C17 (range computation of cmd_push): the applied patches must be a prefix of the series, the goal must name a patch
// that is in the series and not yet applied; otherwise an error - never a crash.

pub open spec fn is_prefix_of(ap: Seq<SeriesPatch>, se: Seq<SeriesPatch>) -> bool {
    ap.len() <= se.len() && forall|j: int| 0 <= j < ap.len() ==> pb_key(#[trigger] ap[j].filename) == pb_key(se[j].filename)
}
pub open spec fn in_series(se: Seq<SeriesPatch>, name: PathBuf) -> bool {
    exists|j: int| 0 <= j < se.len() && pb_key(#[trigger] se[j].filename) == pb_key(name)
}
/// index of the first series entry with that name (only meaningful when in_series)
pub open spec fn first_index(se: Seq<SeriesPatch>, name: PathBuf) -> int {
    choose|j: int| 0 <= j < se.len() && pb_key(#[trigger] se[j].filename) == pb_key(name)
        && forall|m: int| 0 <= m < j ==> pb_key(#[trigger] se[m].filename) != pb_key(name)
}
