// Ghost vocabulary for the unified-diff parser (unit `parser`).  Written from the statements of C11 and C01
// (layers L3 "hunk start lines" and L4 "kind inference") and from the unified diff format, not from the code.

// ---------------------------------------------------------------------------------------------- byte slices

/// `rest` is what remains of `input` after some prefix of it was consumed.
pub open spec fn is_suffix_of(rest: Seq<u8>, input: Seq<u8>) -> bool {
    rest.len() <= input.len() && rest == input.subrange(input.len() - rest.len(), input.len() as int)
}

/// `part` is the piece `input[at .. at+|part|]`.
pub open spec fn is_subslice_at(part: Seq<u8>, input: Seq<u8>, at: int) -> bool {
    0 <= at && at + part.len() <= input.len() && part == input.subrange(at, at + part.len())
}

pub proof fn lemma_suffix_refl(a: Seq<u8>)
    ensures is_suffix_of(a, a),
{
    assert(a.subrange(0, a.len() as int) =~= a);
}

pub proof fn lemma_suffix_trans(a: Seq<u8>, b: Seq<u8>, c: Seq<u8>)
    requires is_suffix_of(a, b), is_suffix_of(b, c),
    ensures is_suffix_of(a, c),
{
    assert(a =~= c.subrange(c.len() - a.len(), c.len() as int));
}

/// i is the position of the first byte `b` in s.
pub open spec fn is_first_index(s: Seq<u8>, b: u8, i: int) -> bool {
    0 <= i < s.len() && s[i] == b && forall|j: int| 0 <= j < i ==> s[j] != b
}
pub open spec fn absent(s: Seq<u8>, b: u8) -> bool {
    forall|j: int| 0 <= j < s.len() ==> s[j] != b
}

// ---------------------------------------------------------------------------------------------- character classes
// (ASCII tables: SP=32 HT=9 LF=10 VT=11 FF=12 CR=13, '0'..'9'=48..57, 'A'..'F'=65..70, 'a'..'f'=97..102)

pub open spec fn space_byte(c: u8) -> bool { c == 32 || c == 9 }
pub open spec fn whitespace_byte(c: u8) -> bool { 9 <= c <= 13 || c == 32 }
pub open spec fn digit_byte(c: u8) -> bool { 48 <= c <= 57 }
pub open spec fn oct_digit_byte(c: u8) -> bool { 48 <= c <= 55 }
pub open spec fn hex_digit_byte(c: u8) -> bool { 48 <= c <= 57 || 65 <= c <= 70 || 97 <= c <= 102 }

/// three octal digits "abc" with a <= 3 denote 64a + 8b + c (fits a byte); anything else is not an octal triplet
pub open spec fn oct3_spec(s: Seq<u8>) -> Option<u8> {
    if s.len() >= 3 && 48 <= s[0] <= 51 && oct_digit_byte(s[1]) && oct_digit_byte(s[2]) {
        Some((64 * (s[0] - 48) + 8 * (s[1] - 48) + (s[2] - 48)) as u8)
    } else {
        None
    }
}

// ---------------------------------------------------------------------------------------------- stubbed parsers
// (historical) the parsers below used to be stubs; all are verified now (their bodies use constructs the Verus front end rejects).  Each is
// represented by an uninterpreted function of the input BYTES: the only thing assumed about them is that their
// result is determined by the bytes they are given (they are pure functions) plus the weak framing facts stated in
// the stub contracts of units/parser.vu.

/// result of `parse_number_usize` on these bytes: (remaining bytes, value) or None for an error
/// decimal value of a digit string (most significant digit first)
pub open spec fn dec_value(s: Seq<u8>) -> nat { sh_dec_value(s) }   // prelude/parser_shims.rs: d_1*10^(k-1) + .. + d_k
pub open spec fn all_digits(s: Seq<u8>) -> bool { forall|i: int| 0 <= i < s.len() ==> digit_byte(#[trigger] s[i]) }

/// length of the maximal run of digit bytes at the start of s
pub open spec fn digit_run(s: Seq<u8>) -> int
    decreases s.len()
{
    if s.len() > 0 && digit_byte(s[0]) { 1 + digit_run(s.subrange(1, s.len() as int)) } else { 0 }
}

pub proof fn lemma_digit_run(s: Seq<u8>, k: int)
    requires
        0 <= k <= s.len(),
        forall|i: int| 0 <= i < k ==> digit_byte(#[trigger] s[i]),
        k < s.len() ==> !digit_byte(s[k]),
    ensures digit_run(s) == k
    decreases s.len()
{
    if k > 0 {
        let t = s.subrange(1, s.len() as int);
        assert forall|i: int| 0 <= i < k - 1 implies digit_byte(#[trigger] t[i]) by { assert(t[i] == s[i + 1]); }
        if k - 1 < t.len() { assert(t[k - 1] == s[k]); }
        lemma_digit_run(t, k - 1);
    }
}

/// length of the maximal run of bytes satisfying `p` at the start of s (generic version of digit_run)
pub open spec fn run_len(s: Seq<u8>, p: spec_fn(u8) -> bool) -> int
    decreases s.len()
{
    if s.len() > 0 && p(s[0]) { 1 + run_len(s.subrange(1, s.len() as int), p) } else { 0 }
}
pub proof fn lemma_run_len(s: Seq<u8>, p: spec_fn(u8) -> bool, k: int)
    requires
        0 <= k <= s.len(),
        forall|i: int| 0 <= i < k ==> p(#[trigger] s[i]),
        k < s.len() ==> !p(s[k]),
    ensures run_len(s, p) == k
    decreases s.len()
{
    if k > 0 {
        let t = s.subrange(1, s.len() as int);
        assert forall|i: int| 0 <= i < k - 1 implies p(#[trigger] t[i]) by { assert(t[i] == s[i + 1]); }
        if k - 1 < t.len() { assert(t[k - 1] == s[k]); }
        lemma_run_len(t, p, k - 1);
    }
}

// named byte predicates (one term per predicate, so that contracts and hints talk about the same function)
pub open spec fn p_space() -> spec_fn(u8) -> bool { |c: u8| space_byte(c) }
pub open spec fn p_oct() -> spec_fn(u8) -> bool { |c: u8| oct_digit_byte(c) }
pub open spec fn p_hex() -> spec_fn(u8) -> bool { |c: u8| hex_digit_byte(c) }
pub open spec fn p_not_ws() -> spec_fn(u8) -> bool { |c: u8| !whitespace_byte(c) }

/// what split_at_cond(input, !p) returns is the maximal run of p-bytes and the rest
pub proof fn lemma_split_run(input: Seq<u8>, a: Seq<u8>, b: Seq<u8>, p: spec_fn(u8) -> bool)
    requires
        a + b == input,
        forall|i: int| 0 <= i < a.len() ==> p(#[trigger] a[i]),
        b.len() > 0 ==> !p(b[0]),
    ensures
        run_len(input, p) == a.len(),
        a == input.subrange(0, a.len() as int),
        b == input.subrange(a.len() as int, input.len() as int),
        is_suffix_of(b, input),
{
    let k = a.len() as int;
    assert(input.subrange(0, k) =~= a);
    assert(input.subrange(k, input.len() as int) =~= b);
    assert forall|i: int| 0 <= i < k implies p(#[trigger] input[i]) by { assert(input[i] == a[i]); }
    if k < input.len() { assert(input[k] == b[0]); }
    lemma_run_len(input, p, k);
}

/// A file mode as in "old mode 100644" (GNU patch `fetchmode`): optional blanks/TABs, then EXACTLY six octal digits read
/// as an octal number; no digit at all is "no match", any other number of digits a bad mode.  `rest` = after the digits.
pub open spec fn spec_mode(input: Seq<u8>) -> Option<(Seq<u8>, u32)> {
    let b = run_len(input, p_space());
    let t = input.subrange(b, input.len() as int);
    let k = run_len(t, p_oct());
    if k != 6 { None } else { Some((t.subrange(6, t.len() as int), sh_oct_value(t.subrange(0, 6)) as u32)) }
}
/// six octal digits are at most 0o777777 < 2^32
pub proof fn lemma_oct6_fits(s: Seq<u8>)
    requires s.len() == 6, sh_all_oct_digits(s)
    ensures sh_oct_value(s) <= 0o777777
{
    let s5 = s.drop_last(); let s4 = s5.drop_last(); let s3 = s4.drop_last(); let s2 = s3.drop_last(); let s1 = s2.drop_last();
    let s0 = s1.drop_last();
    assert(s0.len() == 0 && s1.len() == 1 && s2.len() == 2 && s3.len() == 3 && s4.len() == 4 && s5.len() == 5);
    assert(48 <= s[0] <= 55 && 48 <= s[1] <= 55 && 48 <= s[2] <= 55 && 48 <= s[3] <= 55 && 48 <= s[4] <= 55 && 48 <= s[5] <= 55);
    assert(s1.last() == s[0] && s2.last() == s[1] && s3.last() == s[2] && s4.last() == s[3] && s5.last() == s[4] && s.last() == s[5]);
    assert(sh_oct_value(s0) == 0);
    assert(sh_oct_value(s1) == sh_oct_value(s0) * 8 + (s[0] - 48) as nat);
    assert(sh_oct_value(s1) <= 7);
    assert(sh_oct_value(s2) == sh_oct_value(s1) * 8 + (s[1] - 48) as nat);
    assert(sh_oct_value(s2) <= 63);
    assert(sh_oct_value(s3) == sh_oct_value(s2) * 8 + (s[2] - 48) as nat);
    assert(sh_oct_value(s3) <= 511);
    assert(sh_oct_value(s4) == sh_oct_value(s3) * 8 + (s[3] - 48) as nat);
    assert(sh_oct_value(s4) <= 4095);
    assert(sh_oct_value(s5) == sh_oct_value(s4) * 8 + (s[4] - 48) as nat);
    assert(sh_oct_value(s5) <= 32767);
    assert(sh_oct_value(s) == sh_oct_value(s5) * 8 + (s[5] - 48) as nat);
}

/// a token: the maximal non-empty run of bytes satisfying p; `None` if the input does not start with such a byte
pub open spec fn spec_token(input: Seq<u8>, p: spec_fn(u8) -> bool) -> Option<(Seq<u8>, Seq<u8>)> {
    let k = run_len(input, p);
    if k == 0 { None } else { Some((input.subrange(k, input.len() as int), input.subrange(0, k))) }
}

/// A number in a hunk header (unified format: decimal, no sign): the maximal run of digits at the start of the input
/// read as a decimal number; an error if there is no digit or the value does not fit a machine word; `rest` is what
/// follows the digits.  Written from the format, NOT from the code.
pub open spec fn spec_number(input: Seq<u8>) -> Option<(Seq<u8>, usize)> {
    let k = digit_run(input);
    if k == 0 || dec_value(input.subrange(0, k)) > usize::MAX { None }
    else { Some((input.subrange(k, input.len() as int), dec_value(input.subrange(0, k)) as usize)) }
}

pub ghost struct HeaderSpec {
    pub remove_line: usize,
    pub remove_count: usize,
    pub add_line: usize,
    pub add_count: usize,
    pub function: Seq<u8>,
    pub rest: Seq<u8>,
}
/// what follows the first k bytes
pub open spec fn after(s: Seq<u8>, k: int) -> Seq<u8> { s.subrange(k, s.len() as int) }
/// one text line WITHOUT its LF, and what follows the LF; None when there is no LF
pub open spec fn split_line_skip(s: Seq<u8>) -> Option<(Seq<u8>, Seq<u8>)> {
    if absent(s, 10) { None } else { Some((s.subrange(0, lf_index(s)), s.subrange(lf_index(s) + 1, s.len() as int))) }
}

/// A hunk header, written from the unified format ("@@ -N[,M] +N[,M] @@[ section heading]", GNU diffutils manual,
/// "Detailed Description of Unified Format") and GNU patch's leniency about the closing "@@" (a single "@" is enough and
/// whatever follows on the line is ignored unless it is "@ " + heading), NOT from the code:
///   "@@ -" range " +" range " @"  then either "@ " heading LF   (function = heading)
///                                  or anything up to and including the LF (function = empty).
/// The numbers are decimal (spec_number via line_and_count_spec); `rest` is the input after the line.
pub open spec fn spec_hunk_header(input: Seq<u8>) -> Option<HeaderSpec> {
    if !prefix_is(input, seq![64u8, 64u8, 32u8, 45u8]) { None } else {
        match line_and_count_spec(after(input, 4)) {
            None => None,
            Some((i2, (rl, rc))) =>
                if !prefix_is(i2, seq![32u8, 43u8]) { None } else {
                    match line_and_count_spec(after(i2, 2)) {
                        None => None,
                        Some((i3, (al, ac))) =>
                            if !prefix_is(i3, seq![32u8, 64u8]) { None } else {
                                let i4 = after(i3, 2);
                                if prefix_is(i4, seq![64u8, 32u8]) {
                                    match split_line_skip(after(i4, 2)) {
                                        None => None,
                                        Some((heading, rest)) => Some(HeaderSpec { remove_line: rl, remove_count: rc, add_line: al,
                                                                                  add_count: ac, function: heading, rest: rest }),
                                    }
                                } else {
                                    match split_line_incl(i4) {
                                        None => None,
                                        Some((_line, rest)) => Some(HeaderSpec { remove_line: rl, remove_count: rc, add_line: al,
                                                                                 add_count: ac, function: Seq::empty(), rest: rest }),
                                    }
                                }
                            },
                    }
                },
        }
    }
}

pub ghost struct HunkLineSpec {
    pub ty: HunkLineType,
    pub line: Seq<u8>,
    pub rest: Seq<u8>,
}
/// index of the first LF of `s` (meaningful when `!absent(s, 10)`)
pub open spec fn lf_index(s: Seq<u8>) -> int {
    choose|k: int| is_first_index(s, 10, k)
}

pub proof fn lemma_lf_index(s: Seq<u8>, k: int)
    requires is_first_index(s, 10, k)
    ensures lf_index(s) == k, !absent(s, 10)
{
    let k2 = lf_index(s);
    assert(is_first_index(s, 10, k2));
    if k2 < k { assert(s[k2] != 10); }
    if k < k2 { assert(s[k] != 10); }
}

/// one text line including its LF, and what follows it; None when there is no LF
pub open spec fn split_line_incl(s: Seq<u8>) -> Option<(Seq<u8>, Seq<u8>)> {
    if absent(s, 10) { None } else {
        Some((s.subrange(0, lf_index(s) + 1), s.subrange(lf_index(s) + 1, s.len() as int)))
    }
}

pub open spec fn hunk_line_tag(ty: HunkLineType) -> u8 {
    match ty { HunkLineType::Add => 43, HunkLineType::Remove => 45, HunkLineType::Context => 32 }
}

/// One line of a hunk body, written from the unified format (GNU diffutils manual, "Detailed Description of Unified
/// Format"; POSIX diff -u) and GNU patch's documented leniency, NOT from the code:
///  * the first byte says what the line is: '+' (43) added, '-' (45) removed, ' ' (32) context; the file line is the
///    text after that byte up to and INCLUDING its LF;
///  * patch also takes a context line that lost its leading blank: a line starting with TAB (9) is a context line and
///    the TAB belongs to the file line; a completely empty line is the empty context line "\n";
///  * if the NEXT line starts with '\' (92; "\ No newline at end of file", possibly localised), the file line has no
///    terminating LF: exactly that one LF is not part of it (no other byte is dropped), and the marker line is
///    consumed up to and including its own LF;
///  * anything else (other first byte, end of input, a line or marker without LF) is an error.
/// `rest` is the input after everything consumed.
pub open spec fn spec_hunk_line(input: Seq<u8>) -> Option<HunkLineSpec> {
    if input.len() == 0 { None } else {
        let b = input[0];
        let cut: Option<(HunkLineType, Seq<u8>)> =
            if b == 43 { Some((HunkLineType::Add, input.subrange(1, input.len() as int))) }
            else if b == 45 { Some((HunkLineType::Remove, input.subrange(1, input.len() as int))) }
            else if b == 32 { Some((HunkLineType::Context, input.subrange(1, input.len() as int))) }
            else if b == 9 || b == 10 { Some((HunkLineType::Context, input)) }
            else { None };
        match cut {
            None => None,
            Some((ty, text)) => match split_line_incl(text) {
                None => None,
                Some((line, rest)) =>
                    if rest.len() > 0 && rest[0] == 92 {
                        match split_line_incl(rest) {
                            None => None,
                            Some((_marker, rest2)) => Some(HunkLineSpec { ty: ty, line: line.drop_last(), rest: rest2 }),
                        }
                    } else {
                        Some(HunkLineSpec { ty: ty, line: line, rest: rest })
                    },
            },
        }
    }
}

/// a file line as `diff` sees it: no LF except possibly as its last byte
pub open spec fn is_file_line(l: Seq<u8>) -> bool {
    forall|i: int| 0 <= i < l.len() - 1 ==> l[i] != 10
}
pub open spec fn ends_with_lf(l: Seq<u8>) -> bool { l.len() > 0 && l[l.len() - 1] == 10 }

/// a "\ No newline at end of file" line in any language: starts with '\', ends at its first LF
pub open spec fn is_marker_line(m: Seq<u8>) -> bool {
    m.len() >= 2 && m[0] == 92 && is_first_index(m, 10, m.len() - 1)
}

/// What `diff -u` writes for the file line `l` of kind `ty`: tag byte, the line, and if the line has no LF of its own
/// an LF plus a marker line `m`.
pub open spec fn render_hunk_line(ty: HunkLineType, l: Seq<u8>, m: Seq<u8>) -> Seq<u8> {
    if ends_with_lf(l) { seq![hunk_line_tag(ty)] + l } else { seq![hunk_line_tag(ty)] + l + seq![10u8] + m }
}

/// C01 "may lack a final newline", hunk-line level: reading back what diff writes for a file line gives exactly that
/// file line (byte for byte, with or without final LF), its kind, and the untouched remainder.  The side condition on
/// `rest` is the format's own: after a line WITH its LF the next line must not start with '\' (it would be read as a
/// marker; diff never writes one there).
pub proof fn lemma_hunk_line_round_trip(ty: HunkLineType, l: Seq<u8>, m: Seq<u8>, rest: Seq<u8>)
    requires
        is_file_line(l),
        ends_with_lf(l) ==> (rest.len() == 0 || rest[0] != 92),
        !ends_with_lf(l) ==> is_marker_line(m),
    ensures
        spec_hunk_line(render_hunk_line(ty, l, m) + rest) == Some(HunkLineSpec { ty: ty, line: l, rest: rest }),
{
    let tag = hunk_line_tag(ty);
    let input = render_hunk_line(ty, l, m) + rest;
    assert(input[0] == tag);
    if ends_with_lf(l) {
        let text = input.subrange(1, input.len() as int);
        assert(text =~= l + rest);
        assert(is_first_index(text, 10, l.len() - 1));
        lemma_lf_index(text, l.len() - 1);
        assert(text.subrange(0, l.len() as int) =~= l);
        assert(text.subrange(l.len() as int, text.len() as int) =~= rest);
    } else {
        let text = input.subrange(1, input.len() as int);
        assert(text =~= l + seq![10u8] + m + rest);
        assert(is_first_index(text, 10, l.len() as int)) by {
            assert forall|j: int| 0 <= j < l.len() implies text[j] != 10 by {
                if j < l.len() - 1 { assert(l[j] != 10); }
            }
        }
        lemma_lf_index(text, l.len() as int);
        let line = text.subrange(0, l.len() as int + 1);
        let r1 = text.subrange(l.len() as int + 1, text.len() as int);
        assert(line =~= l + seq![10u8]);
        assert(line.drop_last() =~= l);
        assert(r1 =~= m + rest);
        assert(r1[0] == 92);
        assert(is_first_index(r1, 10, m.len() - 1));
        lemma_lf_index(r1, m.len() - 1);
        assert(r1.subrange(m.len() as int, r1.len() as int) =~= rest);
    }
}

/// "N" or "N,M" (unified diff range): the count defaults to 1 when ",M" is missing.
pub open spec fn line_and_count_spec(input: Seq<u8>) -> Option<(Seq<u8>, (usize, usize))> {
    match spec_number(input) {
        None => None,
        Some((rest1, line)) =>
            if rest1.len() > 0 && rest1[0] == 44 {   // ','
                match spec_number(rest1.subrange(1, rest1.len() as int)) {
                    None => None,
                    Some((rest2, count)) => Some((rest2, (line, count))),
                }
            } else {
                Some((rest1, (line, 1usize)))
            },
    }
}

// ---------------------------------------------------------------------------------------------- C01 L3: start lines

/// Largest line number the parser accepts in a hunk header (isize::MAX / 2 on the 64-bit target).
pub open spec fn MAX_LINE() -> int { 0x3fff_ffff_ffff_ffff }

/// Unified diff convention: a side with lines starts at header line N (1-based) = N-1 (0-based); a side without
/// lines names the line AFTER which the hunk belongs, which already is the 0-based position.  ("-0" with lines does
/// not occur in well-formed diffs; it is read as position 0.)
pub open spec fn start_line_spec(line: int, count: int) -> int {
    if count == 0 { line } else if line >= 1 { line - 1 } else { 0 }
}

/// "the declared context really is context on both sides" (the quantified part of hunk_wf of specs/hunk.rs)
#[verifier::opaque]
pub open spec fn ctx_wf<L>(rem: Seq<L>, add: Seq<L>, p: int, s: int) -> bool {
    &&& 0 <= p && 0 <= s
    &&& p + s <= rem.len()
    &&& p + s <= add.len()
    &&& forall|i: int| 0 <= i < p ==> #[trigger] rem[i] == add[i]
    &&& forall|i: int| rem.len() - s <= i < rem.len() ==> #[trigger] rem[i] == add[i - rem.len() + add.len()]
}

/// hunk_wf of specs/hunk.rs with explicit bounds instead of BIG(): lengths <= len_max, start lines <= line_max.
pub open spec fn hunk_wf_lines<L>(h: Hunk<L>, len_max: int, line_max: int) -> bool {
    &&& ctx_wf(h.remove.content@, h.add.content@, h.prefix_context as int, h.suffix_context as int)
    &&& h.remove.content@.len() <= len_max && h.add.content@.len() <= len_max
    &&& 0 <= h.remove.target_line <= line_max
    &&& 0 <= h.add.target_line <= line_max
}

/// The link to hunk_wf: it follows as soon as both bounds are below BIG() = 2^60.
pub proof fn lemma_hunk_wf_from_lines<L>(h: Hunk<L>, len_max: int, line_max: int)
    requires
        hunk_wf_lines(h, len_max, line_max),
        len_max < BIG(),
        line_max < LBIG(),
    ensures
        hunk_wf(h),
{
    reveal(ctx_wf);
}

/// hunk_wf (the precondition of the apply layer, specs/hunk.rs) follows from what parse_hunk establishes: start lines
/// <= MAX_LINE() = 2^62-1 < LBIG(), sides no longer than the consumed input.  The one remaining hypothesis is a machine
/// fact: the patch text is shorter than 2^60 bytes.
pub proof fn lemma_hunk_wf_of_parsed<'a>(h: TextHunk<'a>, hd: HeaderSpec, len_max: int)
    requires
        hunk_wf_lines(h, len_max, MAX_LINE()),
        hunk_start_lines(h, hd),
        len_max < BIG(),
    ensures
        hunk_wf(h),
{
    lemma_hunk_wf_from_lines(h, len_max, MAX_LINE());
}

pub proof fn lemma_ctx_wf_empty<L>()
    ensures ctx_wf(Seq::<L>::empty(), Seq::<L>::empty(), 0, 0),
{
    reveal(ctx_wf);
}

/// One more line: how the context bookkeeping of a well-formed hunk continues.  `nc` = a changed line was seen
/// before; while !nc both sides consist of the p context lines only.  (Facts about hypothetical pushes; which of them
/// applies is decided by what the code does.)
pub proof fn lemma_ctx_wf_push<L>(rem: Seq<L>, add: Seq<L>, p: int, s: int, nc: bool, line: L)
    requires
        ctx_wf(rem, add, p, s),
        !nc ==> s == 0 && p == rem.len() && p == add.len(),
    ensures
        ctx_wf(rem, add.push(line), p, 0),
        ctx_wf(rem.push(line), add, p, 0),
        nc ==> ctx_wf(rem.push(line), add.push(line), p, s + 1),
        !nc ==> ctx_wf(rem.push(line), add.push(line), p + 1, 0),
{
    reveal(ctx_wf);
    let r1 = rem.push(line);
    let a1 = add.push(line);
    if nc {
        assert forall|i: int| r1.len() - (s + 1) <= i < r1.len() implies #[trigger] r1[i] == a1[i - r1.len() + a1.len()] by {
            if i < rem.len() { assert(rem[i] == add[i - rem.len() + add.len()]); }
        }
    } else {
        assert forall|i: int| 0 <= i < p + 1 implies #[trigger] r1[i] == a1[i] by {
            if i < p { assert(rem[i] == add[i]); }
        }
    }
}

/// What the hunk assembler must deliver for a header `hd` (C01 L3): sizes as announced, start lines by the convention.
pub open spec fn hunk_matches_header<'a>(h: TextHunk<'a>, hd: HeaderSpec) -> bool {
    &&& h.remove.content@.len() == hd.remove_count
    &&& h.add.content@.len() == hd.add_count
    &&& h.function@ == hd.function
}
pub open spec fn hunk_start_lines<'a>(h: TextHunk<'a>, hd: HeaderSpec) -> bool {
    &&& h.remove.target_line as int == start_line_spec(hd.remove_line as int, hd.remove_count as int)
    &&& h.add.target_line as int == start_line_spec(hd.add_line as int, hd.add_count as int)
}


// ---------------------------------------------------------------------------------------------- C01 L3: hunk body
// Declarative description of what a hunk body means, relative to the (stubbed) line parser.

/// byte contents of a sequence of lines
pub open spec fn plines(s: Seq<&[u8]>) -> Seq<Seq<u8>> { s.map_values(|l: &[u8]| l@) }

/// input on which the i-th line of the run `ls` starting at `start` is parsed (i == |ls|: what remains after the run)
pub open spec fn run_input(start: Seq<u8>, ls: Seq<HunkLineSpec>, i: int) -> Seq<u8> {
    if i <= 0 { start } else { ls[i - 1].rest }
}
/// ls is the run of hunk lines read from `start`: every element is what the line parser yields on the remainder
/// left by its predecessor
#[verifier::opaque]
pub open spec fn is_line_run(start: Seq<u8>, ls: Seq<HunkLineSpec>) -> bool {
    forall|i: int| 0 <= i < ls.len() ==> spec_hunk_line(run_input(start, ls, i)) == Some(#[trigger] ls[i])
}
/// old side of the hunk: the lines that are not additions ('+'), in order
pub open spec fn old_lines(ls: Seq<HunkLineSpec>) -> Seq<Seq<u8>>
    decreases ls.len()
{
    if ls.len() == 0 { Seq::empty() } else {
        let init = old_lines(ls.drop_last());
        if ls.last().ty is Add { init } else { init.push(ls.last().line) }
    }
}
/// new side of the hunk: the lines that are not removals ('-'), in order
pub open spec fn new_lines(ls: Seq<HunkLineSpec>) -> Seq<Seq<u8>>
    decreases ls.len()
{
    if ls.len() == 0 { Seq::empty() } else {
        let init = new_lines(ls.drop_last());
        if ls.last().ty is Remove { init } else { init.push(ls.last().line) }
    }
}
/// the first p lines are context lines and the next one (if any) is not
#[verifier::opaque]
pub open spec fn is_lead_context(ls: Seq<HunkLineSpec>, p: int) -> bool {
    &&& 0 <= p <= ls.len()
    &&& forall|i: int| 0 <= i < p ==> (#[trigger] ls[i]).ty is Context
    &&& p < ls.len() ==> !(ls[p].ty is Context)
}
/// the last s lines are context lines and the one before them (if any) is not
#[verifier::opaque]
pub open spec fn is_trail_context(ls: Seq<HunkLineSpec>, s: int) -> bool {
    &&& 0 <= s <= ls.len()
    &&& forall|i: int| ls.len() - s <= i < ls.len() ==> (#[trigger] ls[i]).ty is Context
    &&& s < ls.len() ==> !(ls[ls.len() - s - 1].ty is Context)
}
/// The hunk `h` with remainder `rest` is the meaning of the line run `ls` following the header `hd`:
/// sides = the non-'+' / non-'-' lines in order, prefix_context = the leading context lines, suffix_context = the
/// trailing context lines (a hunk consisting of context lines only counts them all as prefix, none as suffix).
pub open spec fn hunk_body_is<'a>(hd: HeaderSpec, ls: Seq<HunkLineSpec>, h: TextHunk<'a>, rest: Seq<u8>) -> bool {
    &&& is_line_run(hd.rest, ls)
    &&& rest == run_input(hd.rest, ls, ls.len() as int)
    &&& plines(h.remove.content@) == old_lines(ls)
    &&& plines(h.add.content@) == new_lines(ls)
    &&& is_lead_context(ls, h.prefix_context as int)
    &&& if h.prefix_context == ls.len() { h.suffix_context == 0 } else { is_trail_context(ls, h.suffix_context as int) }
}

/// ... for some run of lines (the run is determined by the line parser and the two counts of the header)
pub open spec fn hunk_body_ok<'a>(hd: HeaderSpec, h: TextHunk<'a>, rest: Seq<u8>) -> bool {
    exists|ls: Seq<HunkLineSpec>| hunk_body_is(hd, ls, h, rest)
}

pub proof fn lemma_old_lines_push(ls: Seq<HunkLineSpec>, x: HunkLineSpec)
    ensures old_lines(ls.push(x)) == (if x.ty is Add { old_lines(ls) } else { old_lines(ls).push(x.line) }),
{
    assert(ls.push(x).drop_last() =~= ls);
}
pub proof fn lemma_new_lines_push(ls: Seq<HunkLineSpec>, x: HunkLineSpec)
    ensures new_lines(ls.push(x)) == (if x.ty is Remove { new_lines(ls) } else { new_lines(ls).push(x.line) }),
{
    assert(ls.push(x).drop_last() =~= ls);
}

pub proof fn lemma_line_run_empty(start: Seq<u8>)
    ensures is_line_run(start, Seq::empty()),
{
    reveal(is_line_run);
}
pub proof fn lemma_line_run_push(start: Seq<u8>, ls: Seq<HunkLineSpec>, x: HunkLineSpec)
    requires
        is_line_run(start, ls),
        spec_hunk_line(run_input(start, ls, ls.len() as int)) == Some(x),
    ensures
        is_line_run(start, ls.push(x)),
        run_input(start, ls.push(x), ls.len() as int + 1) == x.rest,
{
    reveal(is_line_run);
    let l1 = ls.push(x);
    assert forall|i: int| 0 <= i < l1.len() implies spec_hunk_line(run_input(start, l1, i)) == Some(#[trigger] l1[i]) by {
        if i < ls.len() {
            assert(l1[i] == ls[i]);
            assert(run_input(start, l1, i) == run_input(start, ls, i));
        }
    }
}
pub proof fn lemma_plines_push(v: Seq<&[u8]>, l: &[u8])
    ensures plines(v.push(l)) == plines(v).push(l@),
{
    assert(plines(v.push(l)) =~= plines(v).push(l@));
}
pub proof fn lemma_plines_empty(v: Seq<&[u8]>)
    requires v.len() == 0,
    ensures plines(v) == Seq::<Seq<u8>>::empty(), old_lines(Seq::empty()) == Seq::<Seq<u8>>::empty(), new_lines(Seq::empty()) == Seq::<Seq<u8>>::empty(),
{
    assert(plines(v) =~= Seq::<Seq<u8>>::empty());
}

/// Loop-side bookkeeping of the context counters for the run `ls`: p leading context lines; `nc` = some line is not a
/// context line; then s trailing context lines, else s = 0.
pub open spec fn ctx_counts(ls: Seq<HunkLineSpec>, p: int, s: int, nc: bool) -> bool {
    &&& is_lead_context(ls, p)
    &&& 0 <= p <= ls.len() && 0 <= s
    &&& nc <==> p < ls.len()
    &&& nc ==> is_trail_context(ls, s)
    &&& !nc ==> s == 0
}
pub proof fn lemma_ctx_counts_empty()
    ensures ctx_counts(Seq::empty(), 0, 0, false),
{
    reveal(is_lead_context);
}
pub proof fn lemma_ctx_counts_push(ls: Seq<HunkLineSpec>, p: int, s: int, nc: bool, x: HunkLineSpec)
    requires
        ctx_counts(ls, p, s, nc),
    ensures
        !(x.ty is Context) ==> ctx_counts(ls.push(x), p, 0, true),
        x.ty is Context && nc ==> ctx_counts(ls.push(x), p, s + 1, true),
        x.ty is Context && !nc ==> ctx_counts(ls.push(x), p + 1, 0, false),
{
    reveal(is_lead_context);
    reveal(is_trail_context);
    let l1 = ls.push(x);
    assert forall|i: int| 0 <= i < ls.len() implies l1[i] == ls[i] by {}
    if x.ty is Context && nc {
        assert forall|i: int| l1.len() - (s + 1) <= i < l1.len() implies (#[trigger] l1[i]).ty is Context by {
            if i < ls.len() { assert(ls[i].ty is Context); }
        }
        if s + 1 < l1.len() { assert(l1[l1.len() - (s + 1) - 1] == ls[ls.len() - s - 1]); }
    }
}

// ---------------------------------------------------------------------------------------------- C01: header round trip
// What diff WRITES for a hunk header is read back as the numbers it was written from (statement level, over the defined
// specification functions; the real parser is proved equal to them by C01.header / C11.number / C01.line_and_count).

/// decimal digits of n, most significant first, no leading zero (0 is "0")
pub open spec fn dec_digits(n: nat) -> Seq<u8>
    decreases n
{
    if n < 10 { seq![(48 + n) as u8] } else { dec_digits(n / 10).push((48 + n % 10) as u8) }
}

pub proof fn lemma_dec_digits(n: nat)
    ensures
        dec_digits(n).len() >= 1,
        sh_all_digits(dec_digits(n)),
        sh_dec_value(dec_digits(n)) == n,
    decreases n
{
    if n < 10 {
        let s = dec_digits(n);
        assert(s.len() == 1 && s[0] == (48 + n) as u8);
        assert(s.drop_last().len() == 0);
        assert(sh_dec_value(s.drop_last()) == 0);
        assert(s.last() == (48 + n) as u8);
    } else {
        lemma_dec_digits(n / 10);
        let p = dec_digits(n / 10);
        let s = p.push((48 + n % 10) as u8);
        assert(s.drop_last() =~= p);
        assert(s.last() == (48 + n % 10) as u8);
        assert forall|i: int| 0 <= i < s.len() implies 48 <= #[trigger] s[i] <= 57 by {
            if i < p.len() { assert(s[i] == p[i]); }
        }
        assert(n == (n / 10) * 10 + n % 10) by (nonlinear_arith);
    }
}

/// a number written in decimal, followed by something that does not start with a digit, is read back by spec_number
pub proof fn lemma_number_round_trip(n: nat, rest: Seq<u8>)
    requires
        n <= usize::MAX,
        rest.len() == 0 || !digit_byte(rest[0]),
    ensures
        spec_number(dec_digits(n) + rest) == Some((rest, n as usize)),
{
    lemma_dec_digits(n);
    let d = dec_digits(n);
    let s = d + rest;
    let k = d.len() as int;
    assert forall|i: int| 0 <= i < k implies digit_byte(#[trigger] s[i]) by { assert(s[i] == d[i]); }
    if k < s.len() { assert(s[k] == rest[0]); }
    lemma_digit_run(s, k);
    assert(s.subrange(0, k) =~= d);
    assert(s.subrange(k, s.len() as int) =~= rest);
}

/// "N,M" as diff writes a range (always with the count here; the ",M"-less short form is covered by line_and_count_spec)
pub open spec fn render_range(line: nat, count: nat) -> Seq<u8> { dec_digits(line) + seq![44u8] + dec_digits(count) }

pub proof fn lemma_range_round_trip(line: nat, count: nat, rest: Seq<u8>)
    requires
        line <= usize::MAX, count <= usize::MAX,
        rest.len() == 0 || !digit_byte(rest[0]),
    ensures
        line_and_count_spec(render_range(line, count) + rest) == Some((rest, (line as usize, count as usize))),
{
    let tail = seq![44u8] + dec_digits(count) + rest;
    assert(render_range(line, count) + rest =~= dec_digits(line) + tail);
    assert(tail[0] == 44u8);
    lemma_number_round_trip(line, tail);
    assert(tail.subrange(1, tail.len() as int) =~= dec_digits(count) + rest);
    lemma_number_round_trip(count, rest);
}

/// "@@ -N,M +N,M @@\n" as diff writes it (no section heading)
pub open spec fn render_header(rl: nat, rc: nat, al: nat, ac: nat) -> Seq<u8> {
    seq![64u8, 64u8, 32u8, 45u8] + render_range(rl, rc) + seq![32u8, 43u8] + render_range(al, ac) + seq![32u8, 64u8, 64u8, 10u8]
}

pub proof fn lemma_header_round_trip(rl: nat, rc: nat, al: nat, ac: nat, rest: Seq<u8>)
    requires rl <= usize::MAX, rc <= usize::MAX, al <= usize::MAX, ac <= usize::MAX,
    ensures
        spec_hunk_header(render_header(rl, rc, al, ac) + rest) == Some(HeaderSpec { remove_line: rl as usize, remove_count: rc as usize,
            add_line: al as usize, add_count: ac as usize, function: Seq::empty(), rest: rest }),
{
    let input = render_header(rl, rc, al, ac) + rest;
    let t3 = seq![32u8, 64u8, 64u8, 10u8] + rest;
    let t2 = seq![32u8, 43u8] + render_range(al, ac) + t3;
    let t1 = render_range(rl, rc) + t2;
    assert(input =~= seq![64u8, 64u8, 32u8, 45u8] + t1);
    assert(input.subrange(0, 4) =~= seq![64u8, 64u8, 32u8, 45u8]);
    assert(after(input, 4) =~= t1);
    assert(t2[0] == 32u8);
    lemma_range_round_trip(rl, rc, t2);
    assert(t2.subrange(0, 2) =~= seq![32u8, 43u8]);
    assert(after(t2, 2) =~= render_range(al, ac) + t3);
    assert(t3[0] == 32u8);
    lemma_range_round_trip(al, ac, t3);
    assert(t3.subrange(0, 2) =~= seq![32u8, 64u8]);
    let i4 = after(t3, 2);
    assert(i4 =~= seq![64u8, 10u8] + rest);
    assert(i4[0] == 64u8 && i4[1] == 10u8);
    assert(!prefix_is(i4, seq![64u8, 32u8])) by {
        if prefix_is(i4, seq![64u8, 32u8]) { assert(i4.subrange(0, 2)[1] == 32u8); assert(i4.subrange(0, 2)[1] == i4[1]); }
    }
    assert(is_first_index(i4, 10, 1));
    lemma_lf_index(i4, 1);
    assert(i4.subrange(2, i4.len() as int) =~= rest);
}
