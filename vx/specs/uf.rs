// Ghost vocabulary for C07 (FilenameDistributor): a union-find forest stored as parent indices
// `connected_components` (cc) plus the map name -> index `filename_to_index` (m).
//
//   uf_inv(cc)            every parent index is <= the own index; roots are the fixpoints
//   root(cc, i)           the root reached from i by following parents (terminates because parents decrease)
//   uf_wf(m, cc)          representation invariant: m is a bijection between its keys and 0..cc.len(), uf_inv(cc)
//   related_m(m, cc, x,y) both names are keys and their indices have the same root
//   merge_rel(..)         the equivalence closure of (old relation, reflexive on the new names) + one pair (a, b)
//   add_post / build_post the postconditions of add / build as relations on the model, used by the series lemma
//   connected(ps, x, y)   x and y are joined by a chain of pairs of the series ps

// ------------------------------------------------------------------------------------------------ forest

pub open spec fn uf_inv(cc: Seq<usize>) -> bool {
    forall|i: int| 0 <= i < cc.len() ==> (#[trigger] cc[i]) <= i
}

pub open spec fn root(cc: Seq<usize>, i: int) -> int
    decreases i
{
    if 0 <= i < cc.len() && cc[i] < i { root(cc, cc[i] as int) } else { i }
}

pub open spec fn same(cc: Seq<usize>, i: int, j: int) -> bool {
    root(cc, i) == root(cc, j)
}

pub open spec fn idx_used<T>(m: Map<T, usize>, i: int) -> bool {
    exists|k: T| #[trigger] m.contains_key(k) && m[k] == i
}

/// names <-> 0..n is a bijection, n == cc.len(), parents never point upwards
pub open spec fn uf_wf<T>(m: Map<T, usize>, cc: Seq<usize>) -> bool {
    &&& uf_inv(cc)
    &&& forall|k: T| #[trigger] m.contains_key(k) ==> m[k] < cc.len()
    &&& forall|k1: T, k2: T| #[trigger] m.contains_key(k1) && #[trigger] m.contains_key(k2) && m[k1] == m[k2] ==> k1 == k2
    &&& forall|i: int| 0 <= i < cc.len() ==> #[trigger] idx_used(m, i)
}

pub open spec fn related_m<T>(m: Map<T, usize>, cc: Seq<usize>, x: T, y: T) -> bool {
    m.contains_key(x) && m.contains_key(y) && same(cc, m[x] as int, m[y] as int)
}

pub open spec fn dist_wf<T: Hash + Eq>(d: FilenameDistributor<T>) -> bool {
    uf_wf(d.filename_to_index@, d.connected_components@)
}

pub open spec fn related<T: Hash + Eq>(d: FilenameDistributor<T>, x: T, y: T) -> bool {
    related_m(d.filename_to_index@, d.connected_components@, x, y)
}

// ------------------------------------------------------------------------------------------------ statement of add

/// the relation before the call, made reflexive so that it also speaks about names that are new in this call
pub open spec fn rel0<T>(m0: Map<T, usize>, cc0: Seq<usize>, x: T, y: T) -> bool {
    x == y || related_m(m0, cc0, x, y)
}

/// equivalence closure of rel0 plus the pair (a, b): since rel0 is an equivalence, adding one pair merges exactly the
/// class of a with the class of b (justified by lemma_merge_is_closure below)
pub open spec fn merge_rel<T>(m0: Map<T, usize>, cc0: Seq<usize>, a: T, ob: Option<T>, x: T, y: T) -> bool {
    match ob {
        None => rel0(m0, cc0, x, y),
        Some(b) => rel0(m0, cc0, x, y)
            || (rel0(m0, cc0, x, a) && rel0(m0, cc0, b, y))
            || (rel0(m0, cc0, x, b) && rel0(m0, cc0, a, y)),
    }
}

pub open spec fn keys_add<T>(m0: Map<T, usize>, a: T, ob: Option<T>, m1: Map<T, usize>) -> bool {
    m1.dom() == match ob { None => m0.dom().insert(a), Some(b) => m0.dom().insert(a).insert(b) }
}

/// the WHOLE partition after add: over all names of the new key set, related <==> merge_rel
pub open spec fn partition_add<T>(m0: Map<T, usize>, cc0: Seq<usize>, a: T, ob: Option<T>, m1: Map<T, usize>, cc1: Seq<usize>) -> bool {
    forall|x: T, y: T| m1.contains_key(x) && m1.contains_key(y) ==>
        (#[trigger] related_m(m1, cc1, x, y) <==> merge_rel(m0, cc0, a, ob, x, y))
}

/// everything `add` promises (the conjunction of the clauses of its contract)
pub open spec fn add_post<T>(m0: Map<T, usize>, cc0: Seq<usize>, a: T, ob: Option<T>, m1: Map<T, usize>, cc1: Seq<usize>) -> bool {
    &&& uf_wf(m1, cc1)
    &&& keys_add(m0, a, ob, m1)
    &&& partition_add(m0, cc0, a, ob, m1, cc1)
}

/// everything `build` promises about the returned name -> thread map r
pub open spec fn build_post<T>(m: Map<T, usize>, cc: Seq<usize>, thread_count: int, r: Map<T, usize>) -> bool {
    &&& r.dom() == m.dom()
    &&& forall|k: T| #[trigger] r.contains_key(k) ==> r[k] < thread_count
    &&& forall|x: T, y: T| #[trigger] related_m(m, cc, x, y) ==> r[x] == r[y]
}

// ------------------------------------------------------------------------------------------------ closure justification

pub open spec fn is_equiv_on<T>(dom: Set<T>, e: spec_fn(T, T) -> bool) -> bool {
    &&& forall|x: T| dom.contains(x) ==> #[trigger] e(x, x)
    &&& forall|x: T, y: T| dom.contains(x) && dom.contains(y) && #[trigger] e(x, y) ==> e(y, x)
    &&& forall|x: T, y: T, z: T| dom.contains(x) && dom.contains(y) && dom.contains(z) && #[trigger] e(x, y) && #[trigger] e(y, z) ==> e(x, z)
}

/// merge_rel is an equivalence on the new key set, contains the old relation and the pair, and is contained in every
/// equivalence that does: it IS the equivalence closure of "old relation + (a, b)".
pub proof fn lemma_merge_is_closure<T>(m0: Map<T, usize>, cc0: Seq<usize>, a: T, ob: Option<T>, e: spec_fn(T, T) -> bool)
    ensures
        ({
            let dom = match ob { None => m0.dom().insert(a), Some(b) => m0.dom().insert(a).insert(b) };
            let mr = |x: T, y: T| merge_rel(m0, cc0, a, ob, x, y);
            &&& is_equiv_on(dom, mr)
            &&& forall|x: T, y: T| dom.contains(x) && dom.contains(y) && rel0(m0, cc0, x, y) ==> #[trigger] mr(x, y)
            &&& ob matches Some(b) ==> mr(a, b)
            &&& (is_equiv_on(dom, e)
                 && (forall|x: T, y: T| dom.contains(x) && dom.contains(y) && #[trigger] rel0(m0, cc0, x, y) ==> e(x, y))
                 && (ob matches Some(b) ==> e(a, b)))
                ==> forall|x: T, y: T| dom.contains(x) && dom.contains(y) && #[trigger] mr(x, y) ==> e(x, y)
        }),
{
    let dom = match ob { None => m0.dom().insert(a), Some(b) => m0.dom().insert(a).insert(b) };
    let mr = |x: T, y: T| merge_rel(m0, cc0, a, ob, x, y);
    assert(is_equiv_on(dom, mr));
    if is_equiv_on(dom, e)
        && (forall|x: T, y: T| dom.contains(x) && dom.contains(y) && #[trigger] rel0(m0, cc0, x, y) ==> e(x, y))
        && (ob matches Some(b) ==> e(a, b)) {
        assert forall|x: T, y: T| dom.contains(x) && dom.contains(y) && #[trigger] mr(x, y) implies e(x, y) by {
            match ob {
                None => {},
                Some(b) => {
                    assert(dom.contains(a) && dom.contains(b));
                    if rel0(m0, cc0, x, y) {
                    } else if rel0(m0, cc0, x, a) && rel0(m0, cc0, b, y) {
                        assert(e(x, a) && e(a, b) && e(b, y));
                        assert(e(x, b));
                    } else {
                        assert(rel0(m0, cc0, x, b) && rel0(m0, cc0, a, y));
                        assert(rel0(m0, cc0, b, a) ==> e(b, a));
                        assert(e(x, b) && e(a, b) && e(a, y));
                        assert(e(b, a));
                        assert(e(x, a));
                    }
                },
            }
        }
    }
}

// ------------------------------------------------------------------------------------------------ roots

pub proof fn lemma_root_props(cc: Seq<usize>, i: int)
    requires
        uf_inv(cc),
        0 <= i < cc.len(),
    ensures
        0 <= root(cc, i) <= i,
        cc[root(cc, i)] == root(cc, i),
    decreases i,
{
    if cc[i] < i {
        lemma_root_props(cc, cc[i] as int);
    }
}

pub proof fn lemma_root_push(cc: Seq<usize>, v: usize, i: int)
    requires
        uf_inv(cc),
        0 <= i < cc.len(),
    ensures
        root(cc.push(v), i) == root(cc, i),
    decreases i,
{
    if cc[i] < i {
        lemma_root_push(cc, v, cc[i] as int);
    }
}

/// linking the root hi below the root lo (lo <= hi) redirects exactly the members of hi's tree
pub proof fn lemma_root_link(cc: Seq<usize>, lo: int, hi: int, i: int)
    requires
        uf_inv(cc),
        0 <= lo <= hi < cc.len(),
        cc[lo] == lo,
        cc[hi] == hi,
        0 <= i < cc.len(),
    ensures
        root(cc.update(hi, lo as usize), i) == (if root(cc, i) == hi { lo } else { root(cc, i) }),
    decreases i,
{
    let cc2 = cc.update(hi, lo as usize);
    if i == hi {
        if lo < hi {
            lemma_root_link(cc, lo, hi, lo);
        }
    } else if cc[i] < i {
        lemma_root_link(cc, lo, hi, cc[i] as int);
    }
}

// ------------------------------------------------------------------------------------------------ model of add

pub open spec fn touch_m<T>(m: Map<T, usize>, cc: Seq<usize>, a: T) -> Map<T, usize> {
    if m.contains_key(a) { m } else { m.insert(a, cc.len() as usize) }
}

pub open spec fn touch_cc<T>(m: Map<T, usize>, cc: Seq<usize>, a: T) -> Seq<usize> {
    if m.contains_key(a) { cc } else { cc.push(cc.len() as usize) }
}

pub open spec fn link_cc(cc: Seq<usize>, i: int, j: int) -> Seq<usize> {
    let ri = root(cc, i);
    let rj = root(cc, j);
    if ri < rj { cc.update(rj, ri as usize) } else { cc.update(ri, rj as usize) }
}

pub open spec fn add_model<T>(m0: Map<T, usize>, cc0: Seq<usize>, a: T, ob: Option<T>) -> (Map<T, usize>, Seq<usize>) {
    let m1 = touch_m(m0, cc0, a);
    let cc1 = touch_cc(m0, cc0, a);
    match ob {
        None => (m1, cc1),
        Some(b) => {
            let m2 = touch_m(m1, cc1, b);
            let cc2 = touch_cc(m1, cc1, b);
            (m2, link_cc(cc2, m2[a] as int, m2[b] as int))
        },
    }
}

/// first use of a name appends a singleton tree, a known name changes nothing
pub proof fn lemma_touch<T>(m: Map<T, usize>, cc: Seq<usize>, a: T)
    requires
        uf_wf(m, cc),
        cc.len() <= usize::MAX,
    ensures
        uf_wf(touch_m(m, cc, a), touch_cc(m, cc, a)),
        touch_m(m, cc, a).dom() == m.dom().insert(a),
        touch_cc(m, cc, a).len() >= cc.len(),
        touch_cc(m, cc, a).len() <= cc.len() + 1,
        forall|x: T, y: T| touch_m(m, cc, a).contains_key(x) && touch_m(m, cc, a).contains_key(y) ==>
            (#[trigger] related_m(touch_m(m, cc, a), touch_cc(m, cc, a), x, y) <==> rel0(m, cc, x, y)),
{
    let n = cc.len() as usize;
    let m1 = touch_m(m, cc, a);
    let cc1 = touch_cc(m, cc, a);
    if m.contains_key(a) {
        assert(m1.dom() =~= m.dom().insert(a));
    } else {
        assert(m1.dom() =~= m.dom().insert(a));
        assert forall|i: int| 0 <= i < cc.len() implies root(cc1, i) == root(cc, i) by {
            lemma_root_push(cc, n, i);
        }
        assert(root(cc1, n as int) == n);
        assert forall|i: int| 0 <= i < cc1.len() implies #[trigger] idx_used(m1, i) by {
            if i < cc.len() {
                assert(idx_used(m, i));
                let k = choose|k: T| #[trigger] m.contains_key(k) && m[k] == i;
                assert(m1.contains_key(k) && m1[k] == i);
            } else {
                assert(m1.contains_key(a) && m1[a] == i);
            }
        }
        assert forall|k: T| #[trigger] m1.contains_key(k) implies m1[k] < cc1.len() by {
            if k != a { assert(m.contains_key(k)); }
        }
        assert forall|k1: T, k2: T| #[trigger] m1.contains_key(k1) && #[trigger] m1.contains_key(k2) && m1[k1] == m1[k2] implies k1 == k2 by {
            if k1 != a { assert(m.contains_key(k1)); }
            if k2 != a { assert(m.contains_key(k2)); }
        }
        assert(uf_inv(cc1));
        assert forall|x: T, y: T| m1.contains_key(x) && m1.contains_key(y) implies
            (#[trigger] related_m(m1, cc1, x, y) <==> rel0(m, cc, x, y)) by {
            if x != a { assert(m.contains_key(x)); lemma_root_props(cc, m[x] as int); }
            if y != a { assert(m.contains_key(y)); lemma_root_props(cc, m[y] as int); }
        }
    }
}

pub open spec fn redirect(r: int, lo: int, hi: int) -> int {
    if r == hi { lo } else { r }
}

/// linking the two roots keeps the invariant and merges exactly the two trees
pub proof fn lemma_link<T>(m: Map<T, usize>, cc: Seq<usize>, i: int, j: int)
    requires
        uf_wf(m, cc),
        0 <= i < cc.len(),
        0 <= j < cc.len(),
    ensures
        uf_wf(m, link_cc(cc, i, j)),
        link_cc(cc, i, j).len() == cc.len(),
        forall|k: int| 0 <= k < cc.len() ==> #[trigger] root(link_cc(cc, i, j), k) == ({
            let ri = root(cc, i);
            let rj = root(cc, j);
            if ri < rj { redirect(root(cc, k), ri, rj) } else { redirect(root(cc, k), rj, ri) }
        }),
{
    let ri = root(cc, i);
    let rj = root(cc, j);
    lemma_root_props(cc, i);
    lemma_root_props(cc, j);
    let lo = if ri < rj { ri } else { rj };
    let hi = if ri < rj { rj } else { ri };
    let cc2 = link_cc(cc, i, j);
    assert(cc2 == cc.update(hi, lo as usize));
    assert(uf_inv(cc2));
    assert forall|k: int| 0 <= k < cc.len() implies #[trigger] root(cc2, k) == redirect(root(cc, k), lo, hi) by {
        lemma_root_link(cc, lo, hi, k);
    }
}

/// the model of add satisfies the whole postcondition of add
pub proof fn lemma_add_model<T>(m0: Map<T, usize>, cc0: Seq<usize>, a: T, ob: Option<T>)
    requires
        uf_wf(m0, cc0),
        cc0.len() <= usize::MAX,
        ob is Some ==> touch_cc(m0, cc0, a).len() <= usize::MAX,
    ensures
        add_post(m0, cc0, a, ob, add_model(m0, cc0, a, ob).0, add_model(m0, cc0, a, ob).1),
{
    let m1 = touch_m(m0, cc0, a);
    let cc1 = touch_cc(m0, cc0, a);
    lemma_touch(m0, cc0, a);
    match ob {
        None => {
            assert forall|x: T, y: T| m1.contains_key(x) && m1.contains_key(y) implies
                (#[trigger] related_m(m1, cc1, x, y) <==> merge_rel(m0, cc0, a, ob, x, y)) by {}
        },
        Some(b) => {
            let m2 = touch_m(m1, cc1, b);
            let cc2 = touch_cc(m1, cc1, b);
            lemma_touch(m1, cc1, b);
            assert(m2.contains_key(a) && m2.contains_key(b));
            let ia = m2[a] as int;
            let ib = m2[b] as int;
            let cc3 = link_cc(cc2, ia, ib);
            lemma_link(m2, cc2, ia, ib);
            lemma_add_partition(m0, cc0, m1, cc1, m2, cc2, cc3, a, b);
        },
    }
}

/// relational core of lemma_add_model for a pair: from the three step facts to the whole partition
pub proof fn lemma_add_partition<T>(m0: Map<T, usize>, cc0: Seq<usize>, m1: Map<T, usize>, cc1: Seq<usize>,
                                    m2: Map<T, usize>, cc2: Seq<usize>, cc3: Seq<usize>, a: T, b: T)
    requires
        m1.dom() == m0.dom().insert(a),
        m2.dom() == m1.dom().insert(b),
        forall|k: T| #[trigger] m2.contains_key(k) ==> m2[k] < cc2.len(),
        forall|x: T, y: T| m1.contains_key(x) && m1.contains_key(y) ==> (#[trigger] related_m(m1, cc1, x, y) <==> rel0(m0, cc0, x, y)),
        forall|x: T, y: T| m2.contains_key(x) && m2.contains_key(y) ==> (#[trigger] related_m(m2, cc2, x, y) <==> rel0(m1, cc1, x, y)),
        forall|k: int| 0 <= k < cc2.len() ==> #[trigger] root(cc3, k) == ({
            let ri = root(cc2, m2[a] as int);
            let rj = root(cc2, m2[b] as int);
            if ri < rj { redirect(root(cc2, k), ri, rj) } else { redirect(root(cc2, k), rj, ri) }
        }),
    ensures
        partition_add(m0, cc0, a, Some(b), m2, cc3),
{
    assert(m2.contains_key(a) && m2.contains_key(b) && m1.contains_key(a));
    assert forall|x: T, y: T| m2.contains_key(x) && m2.contains_key(y) implies
        (#[trigger] related_m(m2, cc3, x, y) <==> merge_rel(m0, cc0, a, Some(b), x, y)) by {
        // old relation, seen through the two insertions
        assert(related_m(m2, cc2, x, y) <==> rel0(m0, cc0, x, y)) by {
            assert(related_m(m2, cc2, x, y) <==> rel0(m1, cc1, x, y));
            if m1.contains_key(x) && m1.contains_key(y) { assert(related_m(m1, cc1, x, y) <==> rel0(m0, cc0, x, y)); }
        }
        assert(related_m(m2, cc2, x, a) <==> rel0(m0, cc0, x, a)) by {
            assert(related_m(m2, cc2, x, a) <==> rel0(m1, cc1, x, a));
            if m1.contains_key(x) { assert(related_m(m1, cc1, x, a) <==> rel0(m0, cc0, x, a)); }
        }
        assert(related_m(m2, cc2, a, y) <==> rel0(m0, cc0, a, y)) by {
            assert(related_m(m2, cc2, a, y) <==> rel0(m1, cc1, a, y));
            if m1.contains_key(y) { assert(related_m(m1, cc1, a, y) <==> rel0(m0, cc0, a, y)); }
        }
        assert(related_m(m2, cc2, x, b) <==> rel0(m0, cc0, x, b)) by {
            assert(related_m(m2, cc2, x, b) <==> rel0(m1, cc1, x, b));
            if m1.contains_key(x) && m1.contains_key(b) { assert(related_m(m1, cc1, x, b) <==> rel0(m0, cc0, x, b)); }
        }
        assert(related_m(m2, cc2, b, y) <==> rel0(m0, cc0, b, y)) by {
            assert(related_m(m2, cc2, b, y) <==> rel0(m1, cc1, b, y));
            if m1.contains_key(y) && m1.contains_key(b) { assert(related_m(m1, cc1, b, y) <==> rel0(m0, cc0, b, y)); }
        }
        let _ = root(cc3, m2[x] as int);
        let _ = root(cc3, m2[y] as int);
    }
}

// ------------------------------------------------------------------------------------------------ series of adds

/// the pair p relates x and y (in either direction)
pub open spec fn pair_links<T>(p: (T, Option<T>), x: T, y: T) -> bool {
    (p.0 == x && p.1 == Some(y)) || (p.0 == y && p.1 == Some(x))
}

pub open spec fn pair_mentions<T>(p: (T, Option<T>), x: T) -> bool {
    p.0 == x || p.1 == Some(x)
}

pub open spec fn linked<T>(ps: Seq<(T, Option<T>)>, x: T, y: T) -> bool {
    exists|i: int| 0 <= i < ps.len() && #[trigger] pair_links(ps[i], x, y)
}

pub open spec fn mentioned<T>(ps: Seq<(T, Option<T>)>, x: T) -> bool {
    exists|i: int| 0 <= i < ps.len() && #[trigger] pair_mentions(ps[i], x)
}

/// c is a chain of names, each consecutive two related by some pair of the series
pub open spec fn chain_ok<T>(ps: Seq<(T, Option<T>)>, c: Seq<T>) -> bool {
    &&& c.len() >= 1
    &&& forall|k: int| 0 <= k < c.len() - 1 ==> #[trigger] linked(ps, c[k], c[k + 1])
}

pub open spec fn connected<T>(ps: Seq<(T, Option<T>)>, x: T, y: T) -> bool {
    exists|c: Seq<T>| #[trigger] chain_ok(ps, c) && c[0] == x && c[c.len() - 1] == y
}

/// the i-th add, as described by add's contract, leads from st[i] to st[i + 1]
pub open spec fn step_ok<T>(ps: Seq<(T, Option<T>)>, st: Seq<(Map<T, usize>, Seq<usize>)>, i: int) -> bool {
    add_post(st[i].0, st[i].1, ps[i].0, ps[i].1, st[i + 1].0, st[i + 1].1)
}

/// st is a sequence of distributor states that `new()` followed by `add(ps[0])`, `add(ps[1])`, .. may produce
/// according to their contracts (st[i] = state before the i-th add, st[ps.len()] = state given to build)
pub open spec fn run_ok<T>(ps: Seq<(T, Option<T>)>, st: Seq<(Map<T, usize>, Seq<usize>)>) -> bool {
    &&& st.len() == ps.len() + 1
    &&& st[0].0 == Map::<T, usize>::empty()
    &&& st[0].1 == Seq::<usize>::empty()
    &&& forall|i: int| 0 <= i < ps.len() ==> #[trigger] step_ok(ps, st, i)
}

/// C07 for one series: names joined by a chain of pairs are keys of the thread map r, with the same thread < threads
pub open spec fn c07_holds<T>(ps: Seq<(T, Option<T>)>, threads: int, r: Map<T, usize>) -> bool {
    forall|x: T, y: T| mentioned(ps, x) && #[trigger] connected(ps, x, y) ==>
        r.contains_key(x) && r.contains_key(y) && r[x] == r[y] && r[x] < threads
}
