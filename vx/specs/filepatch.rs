// Ghost vocabulary for a whole file patch application and its undo (C01 create/delete, C04).

pub open spec fn file_eq(a: ModifiedFile, b: ModifiedFile) -> bool {
    &&& deep(a.content@) == deep(b.content@)
    &&& a.existed == b.existed
    &&& a.deleted == b.deleted
    &&& a.permissions == b.permissions
}

pub open spec fn filepatch_wf(fp: FilePatch<&[u8]>) -> bool {
    &&& hunks_wf(fp.hunks@)
    &&& fp.hunks@.len() < BIG()
    &&& hunks_total(fp.hunks@, fp.hunks@.len() as int) < BIG()
    &&& fp.kind != FilePatchKind::Modify ==> fp.hunks@.len() == 1
}

/// the patch brings the file into existence in this direction
pub open spec fn is_creation(fp: FilePatch<&[u8]>, d: PatchDirection) -> bool {
    (fp.kind == FilePatchKind::Create && d == PatchDirection::Forward) || (fp.kind == FilePatchKind::Delete && d == PatchDirection::Revert)
}
pub open spec fn is_deletion(fp: FilePatch<&[u8]>, d: PatchDirection) -> bool {
    (fp.kind == FilePatchKind::Delete && d == PatchDirection::Forward) || (fp.kind == FilePatchKind::Create && d == PatchDirection::Revert)
}
pub open spec fn whole_new<'a>(fp: FilePatch<'a, &'a [u8]>, d: PatchDirection) -> Seq<&'a [u8]> {
    new_side(fp.hunks@[0], d)
}
pub open spec fn whole_old<'a>(fp: FilePatch<'a, &'a [u8]>, d: PatchDirection) -> Seq<&'a [u8]> {
    old_side(fp.hunks@[0], d)
}
/// the file name the patch gives for the result in this direction is /dev/null
pub open spec fn target_is_devnull(fp: FilePatch<&[u8]>, d: PatchDirection) -> bool {
    match d { PatchDirection::Forward => fp.new_filename is None, PatchDirection::Revert => fp.old_filename is None }
}

pub open spec fn single_report(r: FilePatchApplyReport, d: PatchDirection, fuzz: usize, hr: HunkApplyReport) -> bool {
    &&& r.hunk_reports@.len() == 1 && r.hunk_reports@[0] == hr
    &&& r.any_failed == (hr is Failed)
    &&& r.direction == d
    &&& r.fuzz == fuzz
    &&& r.previous_permissions is None
    &&& !r.previous_deleted
}

pub open spec fn whole_applied(len: int, fuzz: usize) -> HunkApplyReport {
    HunkApplyReport::Applied { line: 0, rollback_line: 0, offset: 0, line_count_diff: len as isize, fuzz: fuzz }
}

/// skipped in rollback mode because the hunk had failed
pub open spec fn skips(mode: ApplyMode) -> bool {
    match mode { ApplyMode::Rollback(prev) => prev.hunk_reports@[0] is Failed, ApplyMode::Normal => false }
}

/// result of the creation branch (either mode), field-wise: hunk reports, failure flag, content, deleted flag
pub open spec fn create_core(fp: FilePatch<&[u8]>, pre: ModifiedFile, d: PatchDirection, fuzz: usize, mode: ApplyMode,
                             reports: Seq<HunkApplyReport>, any_failed: bool, content: Seq<&[u8]>, deleted: bool) -> bool {
    &&& reports.len() == 1
    &&& any_failed == (reports[0] is Failed)
    &&& if skips(mode) {
            reports[0] == HunkApplyReport::Skipped && content == pre.content@ && deleted == pre.deleted
        } else if pre.content@.len() != 0 {
            reports[0] == HunkApplyReport::Failed(HunkApplyFailureReason::CreatingFileThatExists)
            && content == pre.content@ && deleted == pre.deleted
        } else {
            reports[0] == whole_applied(whole_new(fp, d).len() as int, fuzz)
            && content == whole_new(fp, d) && !deleted
        }
}

pub open spec fn delete_core(fp: FilePatch<&[u8]>, pre: ModifiedFile, d: PatchDirection, fuzz: usize, mode: ApplyMode,
                             reports: Seq<HunkApplyReport>, any_failed: bool, content: Seq<&[u8]>, deleted: bool) -> bool {
    &&& reports.len() == 1
    &&& any_failed == (reports[0] is Failed)
    &&& if skips(mode) {
            reports[0] == HunkApplyReport::Skipped && content == pre.content@ && deleted == pre.deleted
        } else if deep(whole_old(fp, d)) != deep(pre.content@) {
            reports[0] == HunkApplyReport::Failed(HunkApplyFailureReason::DeletingFileThatDoesNotMatch)
            && content == pre.content@ && deleted == pre.deleted
        } else {
            reports[0] == whole_applied(-(whole_old(fp, d).len() as int), fuzz)
            && content.len() == 0 && deleted == (target_is_devnull(fp, d) || pre.deleted)
        }
}

pub open spec fn report_header(r: FilePatchApplyReport, d: PatchDirection, fuzz: usize) -> bool {
    r.direction == d && r.fuzz == fuzz && r.previous_permissions is None && !r.previous_deleted
}

pub open spec fn create_post(fp: FilePatch<&[u8]>, pre: ModifiedFile, d: PatchDirection, fuzz: usize, mode: ApplyMode,
                             r: FilePatchApplyReport, post: ModifiedFile) -> bool {
    &&& post.existed == pre.existed && post.permissions == pre.permissions
    &&& report_header(r, d, fuzz)
    &&& create_core(fp, pre, d, fuzz, mode, r.hunk_reports@, r.any_failed, post.content@, post.deleted)
}

pub open spec fn delete_post(fp: FilePatch<&[u8]>, pre: ModifiedFile, d: PatchDirection, fuzz: usize, mode: ApplyMode,
                             r: FilePatchApplyReport, post: ModifiedFile) -> bool {
    &&& post.existed == pre.existed && post.permissions == pre.permissions
    &&& report_header(r, d, fuzz)
    &&& delete_core(fp, pre, d, fuzz, mode, r.hunk_reports@, r.any_failed, post.content@, post.deleted)
}

/// result of the modification branch = the postcondition of apply_modify, field-wise
pub open spec fn modify_core(fp: FilePatch<&[u8]>, pre: ModifiedFile, d: PatchDirection, fuzz: usize, mode: ApplyMode,
                             reports: Seq<HunkApplyReport>, any_failed: bool, content: Seq<&[u8]>, deleted: bool) -> bool {
    let hs = fp.hunks@;
    let n = hs.len() as int;
    let c0 = deep(pre.content@);
    &&& reports.len() == n
    &&& any_failed == any_failed_spec(reports, n)
    &&& deleted == pre.deleted
    &&& mode is Normal ==> reports_normal(hs, d, fuzz as int, c0, pre.deleted, reports, n)
    &&& mode matches ApplyMode::Rollback(prev) ==> reports_rollback(hs, d, prev.hunk_reports@, c0, pre.deleted, reports, n)
    &&& deep(content) == splice_spec(c0, hs, d, reports)
    &&& rollback_lines_ok(c0, hs, d, reports, n)
    &&& cores_ordered(c0.len() as int, hs, d, reports, n)
    &&& reports_shape(hs, d, reports, n)
}

pub open spec fn branch_core(fp: FilePatch<&[u8]>, pre: ModifiedFile, d: PatchDirection, fuzz: usize, mode: ApplyMode,
                             reports: Seq<HunkApplyReport>, any_failed: bool, content: Seq<&[u8]>, deleted: bool) -> bool {
    if fp.kind == FilePatchKind::Modify { modify_core(fp, pre, d, fuzz, mode, reports, any_failed, content, deleted) }
    else if is_creation(fp, d) { create_core(fp, pre, d, fuzz, mode, reports, any_failed, content, deleted) }
    else { delete_core(fp, pre, d, fuzz, mode, reports, any_failed, content, deleted) }
}

pub open spec fn perms_after(fp: FilePatch<&[u8]>, d: PatchDirection, pre: Option<Permissions>) -> Option<Permissions> {
    let chg = match d { PatchDirection::Forward => fp.new_permissions, PatchDirection::Revert => fp.old_permissions };
    match chg { Some(p) => Some(p), None => pre }
}

/// the `deleted` flag the dispatched branch leaves behind, as a function of what is visible afterwards
pub open spec fn branch_deleted(fp: FilePatch<&[u8]>, pre: ModifiedFile, d: PatchDirection, reports: Seq<HunkApplyReport>) -> bool {
    if fp.kind == FilePatchKind::Modify || !(reports[0] is Applied) { pre.deleted }
    else if is_creation(fp, d) { false }
    else { target_is_devnull(fp, d) || pre.deleted }
}

/// C04 vocabulary: what `apply` (normal mode) guarantees about report and file
pub open spec fn apply_post(fp: FilePatch<&[u8]>, pre: ModifiedFile, d: PatchDirection, fuzz: usize, r: FilePatchApplyReport, post: ModifiedFile) -> bool {
    apply_content(fp, pre, d, fuzz, r, post) && apply_record(pre, r)
}
/// what the application does to the file and what the hunk reports say (C03, C01, C04)
pub open spec fn apply_content(fp: FilePatch<&[u8]>, pre: ModifiedFile, d: PatchDirection, fuzz: usize, r: FilePatchApplyReport, post: ModifiedFile) -> bool {
    &&& r.direction == d && r.fuzz == fuzz
    &&& branch_core(fp, pre, d, fuzz, ApplyMode::Normal, r.hunk_reports@, r.any_failed, post.content@, post.deleted)
    &&& post.existed == pre.existed
    &&& post.permissions == perms_after(fp, d, pre.permissions)
}
/// what the report remembers of the previous state, for a later rollback only (C04)
pub open spec fn apply_record(pre: ModifiedFile, r: FilePatchApplyReport) -> bool {
    &&& r.previous_permissions == pre.permissions
    &&& r.previous_deleted == pre.deleted
}

/// what rollback mode guarantees (functionally, whatever report it is given)
pub open spec fn undo_post(fp: FilePatch<&[u8]>, pre: ModifiedFile, d: PatchDirection, fuzz: usize, prev: &FilePatchApplyReport, r: FilePatchApplyReport, post: ModifiedFile) -> bool {
    &&& r.direction == d
    &&& branch_core(fp, pre, d, fuzz, ApplyMode::Rollback(prev), r.hunk_reports@, r.any_failed, post.content@,
                    branch_deleted(fp, pre, d, r.hunk_reports@))
    &&& post.existed == pre.existed
    &&& post.deleted == prev.previous_deleted
    &&& post.permissions == prev.previous_permissions
}

/// what rollback mode needs from the report it is given
pub open spec fn undo_pre(fp: FilePatch<&[u8]>, cur: ModifiedFile, d: PatchDirection, prev: &FilePatchApplyReport) -> bool {
    if fp.kind == FilePatchKind::Modify { rollback_pre(fp.hunks@, d, prev.hunk_reports@, cur.content@.len() as int) }
    else { prev.hunk_reports@.len() >= 1 }
}

pub broadcast proof fn lemma_vec_lines_eq(a: Vec<&[u8]>, b: Vec<&[u8]>)
    ensures #[trigger] a.eq_spec(&b) == (deep(a@) == deep(b@))
{
    if a.eq_spec(&b) {
        assert(a@.len() == b@.len());
        assert forall |i: int| 0 <= i < a@.len() implies deep(a@)[i] == deep(b@)[i] by {
            assert(<&[u8] as PartialEqSpec<&[u8]>>::eq_spec(&a@[i], &b@[i]));
            assert(a@[i]@ =~= b@[i]@);
        }
        assert(deep(a@) =~= deep(b@));
    }
    if deep(a@) == deep(b@) {
        assert(deep(a@).len() == deep(b@).len());
        assert forall |i: int| 0 <= i < a@.len() implies #[trigger] <&[u8] as PartialEqSpec<&[u8]>>::eq_spec(&a@[i], &b@[i]) by {
            assert(deep(a@)[i] == deep(b@)[i]);
            assert(a@[i]@ =~= b@[i]@);
        }
    }
}

// ---------------------------------------------------------------- C04: undo of a whole file patch application

/// `rep` is the report of applying fp (direction d, fuzz f) to mf0, which gave mf1, and `cur` is that file now
pub open spec fn undoable(fp: FilePatch<&[u8]>, mf0: ModifiedFile, d: PatchDirection, f: usize, rep: FilePatchApplyReport,
                          mf1: ModifiedFile, cur: ModifiedFile) -> bool {
    &&& mf0.content@.len() < BIG()
    &&& apply_post(fp, mf0, d, f, rep, mf1)
    &&& file_eq(cur, mf1)
}

pub proof fn lemma_modify_applied_state(fp: FilePatch<&[u8]>, mf0: ModifiedFile, d: PatchDirection, f: usize, rep: FilePatchApplyReport, mf1: ModifiedFile)
    requires
        filepatch_wf(fp), fp.kind == FilePatchKind::Modify, mf0.content@.len() < BIG(),
        apply_post(fp, mf0, d, f, rep, mf1),
    ensures
        applied_state(deep(mf0.content@), fp.hunks@, d, rep.hunk_reports@),
        cores_match(deep(mf0.content@), fp.hunks@, d, rep.hunk_reports@, fp.hunks@.len() as int),
        deep(mf1.content@) == splice_spec(deep(mf0.content@), fp.hunks@, d, rep.hunk_reports@),
        mf0.deleted ==> forall|i: int| 0 <= i < fp.hunks@.len() ==> !((#[trigger] rep.hunk_reports@[i]) is Applied),
{
    reveal(applied_state);
    lemma_normal_cores_match(fp.hunks@, d, f as int, deep(mf0.content@), mf0.deleted, rep.hunk_reports@);
}

/// rollback mode's precondition on the patched file follows from apply's postcondition
pub proof fn lemma_undo_pre(fp: FilePatch<&[u8]>, mf0: ModifiedFile, d: PatchDirection, f: usize, rep: FilePatchApplyReport,
                            mf1: ModifiedFile, cur: ModifiedFile)
    requires filepatch_wf(fp), undoable(fp, mf0, d, f, rep, mf1, cur)
    ensures
        undo_pre(fp, cur, opp(d), &rep),
        rep.hunk_reports@.len() == fp.hunks@.len(),
{
    if fp.kind == FilePatchKind::Modify {
        lemma_modify_applied_state(fp, mf0, d, f, rep, mf1);
        lemma_applied_gives_rollback_pre(deep(mf0.content@), fp.hunks@, d, rep.hunk_reports@);
        assert(deep(cur.content@).len() == cur.content@.len());
    }
}

pub proof fn lemma_undo_modify_file(fp: FilePatch<&[u8]>, mf0: ModifiedFile, d: PatchDirection, f: usize, rep: FilePatchApplyReport,
                                    mf1: ModifiedFile, cur: ModifiedFile, fz: usize, r2: FilePatchApplyReport, fin: ModifiedFile)
    requires
        filepatch_wf(fp), fp.kind == FilePatchKind::Modify,
        undoable(fp, mf0, d, f, rep, mf1, cur),
        undo_post(fp, cur, opp(d), fz, &rep, r2, fin),
    ensures
        !r2.any_failed, deep(fin.content@) == deep(mf0.content@),
{
    let hs = fp.hunks@;
    let n = hs.len() as int;
    let c0 = deep(mf0.content@);
    let reps = rep.hunk_reports@;
    let und = r2.hunk_reports@;
    lemma_modify_applied_state(fp, mf0, d, f, rep, mf1);
    let c1 = splice_spec(c0, hs, d, reps);
    assert(deep(cur.content@) == c1);
    if mf0.deleted {
        // nothing had applied: everything is skipped now and nothing changes
        reveal(undo_like);
        assert forall|i: int| 0 <= i < n implies norm(#[trigger] und[i]) == undo_report(hs[i], d, reps[i]) && !(und[i] is Failed) by {
            assert(!(reps[i] is Applied));
        }
        lemma_no_failed(und, n);
    } else {
        lemma_rollback_all_applied(c0, hs, d, reps, und);
    }
    lemma_undo_modify(c0, hs, d, reps, und);
}

pub proof fn lemma_undo_whole_file(fp: FilePatch<&[u8]>, mf0: ModifiedFile, d: PatchDirection, f: usize, rep: FilePatchApplyReport,
                                   mf1: ModifiedFile, cur: ModifiedFile, fz: usize, r2: FilePatchApplyReport, fin: ModifiedFile)
    requires
        filepatch_wf(fp), fp.kind != FilePatchKind::Modify,
        undoable(fp, mf0, d, f, rep, mf1, cur),
        undo_post(fp, cur, opp(d), fz, &rep, r2, fin),
    ensures
        !r2.any_failed, deep(fin.content@) == deep(mf0.content@),
{
    let h = fp.hunks@[0];
    assert(whole_old(fp, opp(d)) == whole_new(fp, d));
    assert(whole_new(fp, opp(d)) == whole_old(fp, d));
    assert(is_creation(fp, opp(d)) == is_deletion(fp, d));
    assert(is_deletion(fp, opp(d)) == is_creation(fp, d));
    assert(deep(fin.content@).len() == fin.content@.len());
    assert(deep(mf0.content@).len() == mf0.content@.len());
    if deep(fin.content@).len() == 0 && deep(mf0.content@).len() == 0 {
        assert(deep(fin.content@) =~= deep(mf0.content@));
    }
}

/// C04: rolling back an application restores content, existence and permissions exactly and does not fail
pub proof fn lemma_undo_filepatch(fp: FilePatch<&[u8]>, mf0: ModifiedFile, d: PatchDirection, f: usize, rep: FilePatchApplyReport,
                                  mf1: ModifiedFile, cur: ModifiedFile, fz: usize, r2: FilePatchApplyReport, fin: ModifiedFile)
    requires
        filepatch_wf(fp),
        undoable(fp, mf0, d, f, rep, mf1, cur),
        undo_post(fp, cur, opp(d), fz, &rep, r2, fin),
    ensures
        !r2.any_failed,
        file_eq(fin, mf0),
{
    if fp.kind == FilePatchKind::Modify {
        lemma_undo_modify_file(fp, mf0, d, f, rep, mf1, cur, fz, r2, fin);
    } else {
        lemma_undo_whole_file(fp, mf0, d, f, rep, mf1, cur, fz, r2, fin);
    }
}

/// the patched file is at most the original plus all hunk lines (so it stays within the machine bound)
pub proof fn lemma_patched_len(fp: FilePatch<&[u8]>, mf0: ModifiedFile, d: PatchDirection, f: usize, rep: FilePatchApplyReport, mf1: ModifiedFile)
    requires
        filepatch_wf(fp), mf0.content@.len() < BIG(),
        apply_post(fp, mf0, d, f, rep, mf1),
    ensures
        mf1.content@.len() <= mf0.content@.len() + hunks_total(fp.hunks@, fp.hunks@.len() as int),
{
    let hs = fp.hunks@;
    let n = hs.len() as int;
    lemma_total_mono(hs, 0, n);
    if fp.kind == FilePatchKind::Modify {
        let c0 = deep(mf0.content@);
        lemma_out_len(c0, hs, d, rep.hunk_reports@, n);
        assert(deep(mf1.content@).len() == mf1.content@.len());
    } else {
        assert(n == 1);
        assert(hunks_total(hs, 1) == hunks_total(hs, 0) + hs[0].remove.content@.len() + hs[0].add.content@.len());
    }
}
