// Ghost vocabulary for C01, layer L1: "line splitting keeps terminators; the file is the concatenation of its
// lines".  Written from the statement: a file is a byte string, its lines are obtained by cutting after every
// b'\n'; a non-empty tail without newline is a last line.

pub open spec fn NL() -> u8 { 10u8 }

pub open spec fn deep(s: Seq<&[u8]>) -> Seq<Seq<u8>> { s.map_values(|l: &[u8]| l@) }

/// n is the length of the first line of the non-empty byte string b: no newline before position n-1, and the
/// line ends with a newline or with the end of b.
pub open spec fn is_first_line_len(b: Seq<u8>, n: int) -> bool {
    &&& 1 <= n <= b.len()
    &&& forall|i: int| 0 <= i < n - 1 ==> #[trigger] b[i] != NL()
    &&& (b[n - 1] == NL() || n == b.len())
}

pub open spec fn first_line_len(b: Seq<u8>) -> int
    decreases b.len()
{
    if b.len() == 0 { 0 } else if b[0] == NL() { 1 } else { 1 + first_line_len(b.drop_first()) }
}

/// The lines of a byte string.
pub open spec fn lines_of(b: Seq<u8>) -> Seq<Seq<u8>>
    decreases b.len()
    via lines_of_decreases
{
    if b.len() == 0 {
        Seq::empty()
    } else {
        let n = first_line_len(b);
        seq![b.subrange(0, n)] + lines_of(b.subrange(n, b.len() as int))
    }
}

#[via_fn]
proof fn lines_of_decreases(b: Seq<u8>) {
    if b.len() != 0 { lemma_first_line_len(b); }
}

pub open spec fn concat(ls: Seq<Seq<u8>>) -> Seq<u8>
    decreases ls.len()
{
    if ls.len() == 0 { Seq::empty() } else { ls[0] + concat(ls.drop_first()) }
}

/// Shape of a line: non-empty, no newline before its last byte, and (unless it is the last line) ends with newline.
pub open spec fn line_ok(l: Seq<u8>, last: bool) -> bool {
    &&& l.len() > 0
    &&& forall|i: int| 0 <= i < l.len() - 1 ==> #[trigger] l[i] != NL()
    &&& (last || l[l.len() - 1] == NL())
}
pub open spec fn lines_shape(ls: Seq<Seq<u8>>) -> bool {
    forall|k: int| 0 <= k < ls.len() ==> line_ok(#[trigger] ls[k], k == ls.len() - 1)
}

// ------------------------------------------------------------------ lemmas on the declarative split

pub proof fn lemma_first_line_len(b: Seq<u8>)
    requires b.len() > 0,
    ensures is_first_line_len(b, first_line_len(b)),
    decreases b.len(),
{
    if b[0] != NL() && b.len() > 1 {
        let t = b.drop_first();
        lemma_first_line_len(t);
        let n = first_line_len(t);
        assert forall|i: int| 0 <= i < n + 1 - 1 implies #[trigger] b[i] != NL() by {
            if i > 0 { assert(b[i] == t[i - 1]); }
        }
        assert(b[n] == t[n - 1]);
    } else if b[0] != NL() {
        assert(b.drop_first().len() == 0);
        assert(first_line_len(b.drop_first()) == 0);
    }
}

pub proof fn lemma_first_line_unique(b: Seq<u8>, n: int, m: int)
    requires is_first_line_len(b, n), is_first_line_len(b, m),
    ensures n == m,
{
    if n < m { assert(b[n - 1] != NL()); }
    if m < n { assert(b[m - 1] != NL()); }
}

/// (C01.lines_concat) the file is the concatenation of its lines
pub proof fn lemma_lines_concat(b: Seq<u8>)
    ensures concat(lines_of(b)) == b,
    decreases b.len(),
{
    if b.len() == 0 {
        assert(concat(lines_of(b)) =~= b);
    } else {
        lemma_first_line_len(b);
        let n = first_line_len(b);
        let rest = b.subrange(n, b.len() as int);
        lemma_lines_concat(rest);
        let ls = lines_of(b);
        assert(ls[0] == b.subrange(0, n));
        assert(ls.drop_first() =~= lines_of(rest));
        assert(b.subrange(0, n) + rest =~= b);
    }
}

/// (C01.lines_shape) every line is non-empty, only the last may lack its newline, newlines occur only at line ends
pub proof fn lemma_lines_shape(b: Seq<u8>)
    ensures lines_shape(lines_of(b)),
    decreases b.len(),
{
    if b.len() > 0 {
        lemma_first_line_len(b);
        let n = first_line_len(b);
        let rest = b.subrange(n, b.len() as int);
        lemma_lines_shape(rest);
        let ls = lines_of(b);
        let lr = lines_of(rest);
        assert(ls =~= seq![b.subrange(0, n)] + lr);
        assert forall|k: int| 0 <= k < ls.len() implies line_ok(#[trigger] ls[k], k == ls.len() - 1) by {
            if k == 0 {
                if n < b.len() { } else { assert(rest.len() == 0); assert(lr.len() == 0); }
                if ls.len() > 1 { assert(lr.len() > 0); assert(rest.len() > 0); }
            } else {
                assert(ls[k] == lr[k - 1]);
            }
        }
    }
}

pub proof fn lemma_concat_len(ls: Seq<Seq<u8>>)
    ensures concat(ls).len() >= 0, ls.len() > 0 ==> concat(ls).len() >= ls[0].len(),
    decreases ls.len(),
{
    if ls.len() > 0 { lemma_concat_len(ls.drop_first()); }
}

pub proof fn lemma_concat_push(ls: Seq<Seq<u8>>, l: Seq<u8>)
    ensures concat(ls.push(l)) == concat(ls) + l,
    decreases ls.len(),
{
    if ls.len() == 0 {
        assert(ls.push(l).drop_first() =~= ls);
        assert(concat(ls.push(l)) =~= concat(ls) + l);
    } else {
        lemma_concat_push(ls.drop_first(), l);
        assert(ls.push(l).drop_first() =~= ls.drop_first().push(l));
        assert(concat(ls.push(l)) =~= concat(ls) + l);
    }
}

/// Uniqueness: the two facts (shape, concatenation) determine the split.
pub proof fn lemma_split_unique(ls: Seq<Seq<u8>>, b: Seq<u8>)
    requires lines_shape(ls), concat(ls) == b,
    ensures ls == lines_of(b),
    decreases ls.len(),
{
    if ls.len() == 0 {
        assert(b.len() == 0);
        assert(ls =~= lines_of(b));
    } else {
        let l0 = ls[0];
        let tl = ls.drop_first();
        let rest = concat(tl);
        assert(line_ok(ls[0], 0 == ls.len() - 1));
        assert(b == l0 + rest);
        assert(b.len() > 0);
        // l0.len() is the first-line length of b
        assert forall|i: int| 0 <= i < l0.len() - 1 implies #[trigger] b[i] != NL() by { assert(b[i] == l0[i]); }
        assert(b[l0.len() - 1] == l0[l0.len() - 1]);
        if ls.len() == 1 {
            assert(tl.len() == 0);
            assert(rest.len() == 0);
        }
        assert(is_first_line_len(b, l0.len() as int));
        lemma_first_line_len(b);
        lemma_first_line_unique(b, l0.len() as int, first_line_len(b));
        let n = first_line_len(b);
        assert(b.subrange(0, n) =~= l0);
        assert(b.subrange(n, b.len() as int) =~= rest);
        // the tail has the shape too
        assert forall|k: int| 0 <= k < tl.len() implies line_ok(#[trigger] tl[k], k == tl.len() - 1) by {
            assert(tl[k] == ls[k + 1]);
            assert(line_ok(ls[k + 1], k + 1 == ls.len() - 1));
        }
        lemma_split_unique(tl, rest);
        assert(ls =~= seq![l0] + tl);
    }
}

/// Corollary: two byte strings are equal iff their line sequences are equal; and any well-shaped line sequence is
/// the split of its concatenation (what the apply layer produces is written back verbatim).
pub proof fn lemma_lines_injective(a: Seq<u8>, b: Seq<u8>)
    ensures (lines_of(a) == lines_of(b)) <==> (a == b),
{
    lemma_lines_concat(a);
    lemma_lines_concat(b);
}
pub proof fn lemma_lines_of_concat(ls: Seq<Seq<u8>>)
    requires lines_shape(ls),
    ensures lines_of(concat(ls)) == ls,
{
    lemma_split_unique(ls, concat(ls));
}

// ------------------------------------------------------------------ the iterator state

/// Ghost accessors (the struct keeps its private fields because it carries a type invariant).
pub closed spec fn lwe_slice<'a>(s: LinesWithEndings<'a>) -> &'a [u8] { s.input }
pub closed spec fn lwe_input(s: LinesWithEndings) -> Seq<u8> { s.input@ }
pub closed spec fn lwe_off(s: LinesWithEndings) -> int { s.previous_offset as int }
pub closed spec fn lwe_rem(s: LinesWithEndings) -> Seq<usize> { mc_rem(s.iter) }

impl<'a> LinesWithEndings<'a> {
    /// Safety invariant of the iterator state (holds at every program point): the cursor is inside the input and the
    /// pending newline positions are ascending, inside the input and not before the cursor.
    #[verifier::type_invariant]
    pub closed spec fn lwe_safe(self) -> bool {
        let rem = mc_rem(self.iter);
        &&& self.input.len() == self.input@.len()   // (makes the usize bound of the length available)
        &&& self.previous_offset <= self.input@.len()
        &&& forall|k: int| 0 <= k < rem.len() ==> self.previous_offset <= #[trigger] rem[k] < self.input@.len()
        &&& forall|j: int, k: int| 0 <= j < k < rem.len() ==> rem[j] < rem[k]
    }
}

/// Consistent state: the pending positions are exactly the newlines at or after the cursor.
pub open spec fn lwe_exact(s: LinesWithEndings) -> bool {
    &&& 0 <= lwe_off(s) <= lwe_input(s).len()
    &&& is_positions_from(lwe_rem(s), NL(), lwe_input(s), lwe_off(s))
}
pub open spec fn lwe_tail(s: LinesWithEndings) -> Seq<u8> { tail_from(lwe_input(s), lwe_off(s)) }

/// What one call of `next` does in a consistent state.
pub open spec fn next_spec(s0: LinesWithEndings, s1: LinesWithEndings, r: Option<&[u8]>) -> bool {
    &&& lwe_exact(s1)
    &&& lwe_input(s1) == lwe_input(s0)
    &&& lwe_off(s0) <= lwe_off(s1) <= lwe_input(s0).len()
    &&& match r {
            Some(l) => {
                &&& l@ == lwe_input(s0).subrange(lwe_off(s0), lwe_off(s1))
                &&& lines_of(lwe_tail(s0)) == seq![l@] + lines_of(lwe_tail(s1))
            },
            None => lwe_off(s0) == lwe_input(s0).len() && lwe_off(s1) == lwe_off(s0),
        }
}

// ------------------------------------------------------------------ the iterator as a vstd iterator

/// What the iterator yields from a state (input, cursor p, pending positions rem) -- for *every* safe state, consistent
/// or not; `lemma_yield_exact` shows that in a consistent state this is the declarative split of the tail.
pub open spec fn lwe_yield(input: Seq<u8>, p: int, rem: Seq<usize>) -> Seq<Seq<u8>>
    decreases rem.len()
{
    if rem.len() > 0 {
        seq![input.subrange(p, rem[0] + 1)] + lwe_yield(input, rem[0] + 1, rem.drop_first())
    } else if p >= input.len() {
        Seq::empty()
    } else {
        seq![input.subrange(p, input.len() as int)]
    }
}
/// the slice value with a given content (slices are extensional: equal views, equal slices)
pub open spec fn slice_of<'a>(v: Seq<u8>) -> &'a [u8] { choose|x: &'a [u8]| x@ == v }

pub open spec fn lwe_remaining<'a>(s: LinesWithEndings<'a>) -> Seq<&'a [u8]> {
    lwe_yield(lwe_input(s), lwe_off(s), lwe_rem(s)).map_values(|v: Seq<u8>| slice_of::<'a>(v))
}
impl<'a> vstd::std_specs::iter::IteratorSpecImpl for LinesWithEndings<'a> {
    open spec fn obeys_prophetic_iter_laws(&self) -> bool { true }
    open spec fn remaining(&self) -> Seq<&'a [u8]> { lwe_remaining(*self) }
    open spec fn will_return_none(&self) -> bool { true }
    open spec fn decrease(&self) -> Option<nat> { Some(lwe_remaining(*self).len()) }
    open spec fn peek(&self, i: int) -> Option<&'a [u8]> {
        if 0 <= i < lwe_remaining(*self).len() { Some(lwe_remaining(*self)[i]) } else { None }
    }
}

pub open spec fn tail_from(input: Seq<u8>, p: int) -> Seq<u8> { input.subrange(p, input.len() as int) }

/// cutting after the first newline at or after p
pub proof fn lemma_lines_cut(input: Seq<u8>, p: int, q: int)
    requires
        0 <= p <= q < input.len(),
        input[q] == NL(),
        forall|i: int| p <= i < q ==> #[trigger] input[i] != NL(),
    ensures
        lines_of(tail_from(input, p)) == seq![input.subrange(p, q + 1)] + lines_of(tail_from(input, q + 1)),
{
    let tail = tail_from(input, p);
    assert forall|i: int| 0 <= i < q - p implies #[trigger] tail[i] != NL() by { assert(tail[i] == input[p + i]); }
    assert(tail[q - p] == input[q]);
    assert(is_first_line_len(tail, q - p + 1));
    lemma_first_line_len(tail);
    lemma_first_line_unique(tail, q - p + 1, first_line_len(tail));
    assert(tail.subrange(0, q - p + 1) =~= input.subrange(p, q + 1));
    assert(tail.subrange(q - p + 1, tail.len() as int) =~= tail_from(input, q + 1));
}

/// no newline at or after p: the tail is one last line (or nothing)
pub proof fn lemma_lines_last(input: Seq<u8>, p: int)
    requires
        0 <= p <= input.len(),
        forall|i: int| p <= i < input.len() ==> #[trigger] input[i] != NL(),
    ensures
        p < input.len() ==> lines_of(tail_from(input, p)) == seq![tail_from(input, p)],
        p < input.len() ==> lines_of(tail_from(input, p)) == seq![tail_from(input, p)] + lines_of(tail_from(input, input.len() as int)),
        p == input.len() ==> lines_of(tail_from(input, p)) == Seq::<Seq<u8>>::empty(),
{
    let tail = tail_from(input, p);
    if p < input.len() {
        assert forall|i: int| 0 <= i < tail.len() - 1 implies #[trigger] tail[i] != NL() by { assert(tail[i] == input[p + i]); }
        assert(is_first_line_len(tail, tail.len() as int));
        lemma_first_line_len(tail);
        lemma_first_line_unique(tail, tail.len() as int, first_line_len(tail));
        assert(tail.subrange(0, tail.len() as int) =~= tail);
        assert(tail.subrange(tail.len() as int, tail.len() as int).len() == 0);
        assert(lines_of(tail.subrange(tail.len() as int, tail.len() as int)) =~= Seq::<Seq<u8>>::empty());
        assert(lines_of(tail) =~= seq![tail]);
        assert(tail_from(input, input.len() as int).len() == 0);
        assert(seq![tail] + lines_of(tail_from(input, input.len() as int)) =~= seq![tail]);
    } else {
        assert(tail.len() == 0);
    }
}

/// consuming the first pending position keeps the state consistent; that position is the first newline from p
pub proof fn lemma_positions_step(rem: Seq<usize>, b: u8, input: Seq<u8>, p: int)
    requires is_positions_from(rem, b, input, p), rem.len() > 0,
    ensures
        is_positions_from(rem.drop_first(), b, input, rem[0] + 1),
        p <= rem[0] < input.len(),
        input[rem[0] as int] == b,
        forall|i: int| p <= i < rem[0] ==> #[trigger] input[i] != b,
{
    let q = rem[0] as int;
    let rest = rem.drop_first();
    assert forall|i: int| p <= i < q implies #[trigger] input[i] != b by {
        if input[i] == b {
            assert(pos_in(rem, i));
            let k = choose|k: int| 0 <= k < rem.len() && #[trigger] rem[k] as int == i;
            if k > 0 { assert(rem[0] < rem[k]); }
        }
    }
    assert forall|k: int| 0 <= k < rest.len() implies q + 1 <= #[trigger] rest[k] < input.len() && input[rest[k] as int] == b by {
        assert(rest[k] == rem[k + 1]);
        assert(rem[0] < rem[k + 1]);
    }
    assert forall|i: int| q + 1 <= i < input.len() && #[trigger] input[i] == b implies pos_in(rest, i) by {
        assert(pos_in(rem, i));
        let k = choose|k: int| 0 <= k < rem.len() && #[trigger] rem[k] as int == i;
        assert(k > 0);
        assert(rest[k - 1] == rem[k]);
    }
    assert forall|j: int, k: int| 0 <= j < k < rest.len() implies rest[j] < rest[k] by {
        assert(rest[j] == rem[j + 1] && rest[k] == rem[k + 1]);
    }
}
pub proof fn lemma_positions_none(rem: Seq<usize>, b: u8, input: Seq<u8>, p: int)
    requires is_positions_from(rem, b, input, p), rem.len() == 0,
    ensures forall|i: int| p <= i < input.len() ==> #[trigger] input[i] != b,
{
    assert forall|i: int| p <= i < input.len() implies #[trigger] input[i] != b by {
        if input[i] == b { assert(pos_in(rem, i)); }
    }
}

/// In a consistent state the iterator yields the declarative split of the unread tail.
pub proof fn lemma_yield_exact(input: Seq<u8>, p: int, rem: Seq<usize>)
    requires 0 <= p <= input.len(), is_positions_from(rem, NL(), input, p),
    ensures lwe_yield(input, p, rem) == lines_of(tail_from(input, p)),
    decreases rem.len(),
{
    if rem.len() > 0 {
        lemma_positions_step(rem, NL(), input, p);
        lemma_lines_cut(input, p, rem[0] as int);
        lemma_yield_exact(input, rem[0] + 1, rem.drop_first());
    } else {
        lemma_positions_none(rem, NL(), input, p);
        lemma_lines_last(input, p);
    }
}

/// every yielded item is a sub-range of the input slice, hence a slice value whose view is that sub-range
pub proof fn lemma_yield_views<'a>(inp: &'a [u8], p: int, rem: Seq<usize>)
    requires
        0 <= p <= inp@.len(),
        forall|k: int| 0 <= k < rem.len() ==> p <= #[trigger] rem[k] < inp@.len(),
        forall|j: int, k: int| 0 <= j < k < rem.len() ==> rem[j] < rem[k],
    ensures
        forall|k: int| 0 <= k < lwe_yield(inp@, p, rem).len() ==>
            (#[trigger] slice_of::<'a>(lwe_yield(inp@, p, rem)[k]))@ == lwe_yield(inp@, p, rem)[k],
    decreases rem.len(),
{
    let y = lwe_yield(inp@, p, rem);
    if rem.len() > 0 {
        let q = rem[0] as int;
        let rest = rem.drop_first();
        assert forall|k: int| 0 <= k < rest.len() implies q + 1 <= #[trigger] rest[k] < inp@.len() by {
            assert(rest[k] == rem[k + 1]);
            assert(rem[0] < rem[k + 1]);
        }
        assert forall|j: int, k: int| 0 <= j < k < rest.len() implies rest[j] < rest[k] by {
            assert(rest[j] == rem[j + 1] && rest[k] == rem[k + 1]);
        }
        lemma_yield_views(inp, q + 1, rest);
        axiom_subslice_exists(inp, p, q + 1);
        let y1 = lwe_yield(inp@, q + 1, rest);
        assert forall|k: int| 0 <= k < y.len() implies (#[trigger] slice_of::<'a>(y[k]))@ == y[k] by {
            if k > 0 { assert(y[k] == y1[k - 1]); }
        }
    } else if p < inp@.len() {
        axiom_subslice_exists(inp, p, inp@.len() as int);
    }
}

/// In a consistent state, what the iterator will yield (vstd's `remaining()`) is the declarative split of the tail.
pub broadcast proof fn lemma_remaining_is_lines<'a>(s: LinesWithEndings<'a>)
    requires lwe_exact(s),
    ensures
        deep(#[trigger] lwe_remaining(s)) == lines_of(lwe_tail(s)),
        lwe_off(s) == 0 ==> deep(lwe_remaining(s)) == lines_of(lwe_input(s)),
{
    let inp = lwe_slice(s);
    let y = lwe_yield(lwe_input(s), lwe_off(s), lwe_rem(s));
    lemma_yield_views(inp, lwe_off(s), lwe_rem(s));
    lemma_yield_exact(lwe_input(s), lwe_off(s), lwe_rem(s));
    assert(deep(lwe_remaining(s)) =~= y);
    if lwe_off(s) == 0 { assert(lwe_tail(s) =~= lwe_input(s)); }
}
