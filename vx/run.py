"""Run Verus on a generated unit and map every result to named obligations.

verify_unit(unit_name) -> UnitResult with
  status: "ok" | "failed" (some obligation refuted/undischarged) | "undecided" (exit 2 class)
  obligations: {label: {props, desc, discharged, kind, errors:[...]}}
  functions: per-function success/time/rlimit from Verus' JSON
  canary: the `ensures false` run failed as it must
  assumptions: scan of the generated file
"""
import json
import os
import re
import subprocess
import sys
import time

sys.path.insert(0, os.path.dirname(__file__))
import build as B  # noqa: E402
import rsx  # noqa: E402

VERIF = B.VERIF
WORK = os.path.join(VERIF, "work")
RLIMIT = os.environ.get("VERIF_RLIMIT", "100")

# Messages by which Verus reports an obligation that the solver refuted or could not discharge.
VERIFICATION_FAILURES = [
    "postcondition not satisfied",
    "precondition not satisfied",
    "invariant not satisfied",
    "assertion failed",
    "possible arithmetic underflow/overflow",
    "possible division by zero",
    "decreases not satisfied",
    "could not prove termination",
    "unreachable",
    "possible bit shift underflow/overflow",
    "recommendation not met",
    "loop ensures not satisfied",
    "assertion failure",
    "failed this",
    "precondition not met",          # e.g. "precondition not met: index in bounds for this access" (slice/array indexing)
    "requirement not met",           # e.g. access to a union/enum field in the wrong variant
    "unable to show termination",
    "may fail to meet its declared type invariant",
    "cannot show this call will not unwind",
    "might not be allowed at this call-site",
    "cannot show invariant holds",
    "loop must have a decreases clause",
    "index out of bounds",
    "possible panic",
]
RESOURCE_OUT = ["Resource limit (rlimit) exceeded", "resource limit", "solver timed out", "timeout"]


class UnitResult:
    pass


def _run_verus(rs, extra=(), rlimit=None):
    cmd = ["verus", os.path.basename(rs), "--output-json", "--time", "--multiple-errors", "20", "--rlimit", str(rlimit or RLIMIT),
           "--num-threads", os.environ.get("VERIF_THREADS", "8")] + list(extra) + ["--", "--error-format=json"]
    t0 = time.time()
    p = subprocess.run(cmd, cwd=os.path.dirname(rs), capture_output=True, text=True)
    wall = time.time() - t0
    try:
        out = json.loads(p.stdout)
    except Exception:
        out = None
    diags = []
    other = []
    for line in p.stderr.split("\n"):
        line = line.strip()
        if line.startswith("{"):
            try:
                diags.append(json.loads(line))
                continue
            except Exception:
                pass
        if line:
            other.append(line)
    return dict(cmd=" ".join(cmd), rc=p.returncode, json=out, diags=diags, stderr_other=other, wall=wall)


def _enclosing_fn(lines, ln):
    """Scan upwards in generated text for the fn whose body contains line ln."""
    for k in range(ln, 0, -1):
        m = re.match(r"\s*(pub\s+)?((open|closed|uninterp|broadcast|axiom)\s+)*(proof\s+|spec\s+|exec\s+)?(axiom\s+)?fn\s+([A-Za-z_0-9]+)", lines[k - 1])
        if m:
            return m.group(6)
    return None


def resolve_span(span, unit_file):
    """Map a rustc span to its position in the generated unit file.  For code produced by a macro (panic!, assert!,
    unreachable!, vec!) the top-level coordinates are those of the macro DEFINITION (e.g. library/core/src/panic.rs:62);
    the call site is down the `expansion` chain.  Returns the innermost span lying in the unit file, or None."""
    best = None
    cur = span
    while cur is not None:
        if os.path.basename(cur.get("file_name", "")) == unit_file:
            best = cur
        exp = cur.get("expansion")
        cur = exp.get("span") if exp else None
    if best is None:
        return None
    out = dict(best)
    out["is_primary"] = span.get("is_primary")
    out["label"] = span.get("label")
    return out


def classify(diag):
    msg = diag.get("message", "")
    if diag.get("level") != "error":
        return "warn"
    if msg.startswith("aborting due to"):
        return "skip"
    for r in RESOURCE_OUT:
        if r.lower() in msg.lower():
            return "resource"
    for v in VERIFICATION_FAILURES:
        if v in msg:
            return "verif"
    return "frontend"


def scan_assumptions(text):
    """Mechanical scan of the generated file for everything that is assumed rather than proved."""
    found = []
    for ln, l in enumerate(text.split("\n"), 1):
        s = l.strip()
        if s.startswith("//"):
            continue
        for pat, kind in ((r"\bassume\s*\(", "assume"), (r"\badmit\s*\(", "admit"),
                          (r"external_body", "external_body"), (r"assume_specification", "assume_specification"),
                          (r"verifier::external\b", "external"), (r"external_type_specification", "external_type"),
                          (r"external_trait_specification", "external_trait"),
                          (r"\baxiom\b", "axiom"), (r"verifier::exec_allows_no_decreases_clause", "no_decreases"),
                          (r"\bassume_new\b", "assume")):
            if re.search(pat, s):
                found.append(dict(line=ln, kind=kind, text=s[:160]))
                break
    return found



def _unmask(m, lines, obl, extra):
    """Second pass against error masking (see the call site).  Two carriers of masking are handled per function:
    (a) a failed labelled POSTCONDITION clause group -> removed from the function's ensures in the variant;
    (b) a failed one-line `assert(..);` of a labelled proof hint inside the body -> commented out in the variant.
    (b) relies on the labelling discipline of the units: a hint carries the label of the clause it supports, so removing
    a failed hint labelled L can only weaken clauses labelled L, which have failed already.  Multi-line assertions are
    left in place (then later obligations of that path may stay masked; reported as a warning in the error text)."""
    rs = m["rs"]
    for (s_, e_, fk) in m["fnmap"]:
        region = []
        for ln in range(s_, e_ + 1):
            st = lines[ln - 1].strip()
            if ln > s_ and (st == "{" or st.startswith("{")):
                break
            region.append(ln)
        clause_labs = sorted({m["linemap"].get(str(ln)) for ln in region} - {None})
        clause_labs = [l for l in clause_labs if l in obl and obl[l]["kind"] == "clause"]
        if not clause_labs:
            continue
        removed = set()          # labels whose postcondition groups are dropped
        dead_lines = set()       # body lines (failed hint asserts) commented out
        for _round in range(len(clause_labs) + 8):
            new_removed = {l for l in clause_labs if not obl[l]["discharged"] and l not in removed
                           and any(e["function"] == fk and "postcondition" in (e["message"] or "") for e in obl[l]["errors"])}
            new_dead = set()
            for l, o in obl.items():
                for e in o["errors"]:
                    if e["function"] == fk and "assertion failed" in (e["message"] or "") and s_ <= e["line"] <= e_ \
                            and e["line"] not in dead_lines and e["line"] not in region:
                        st = lines[e["line"] - 1].strip()
                        if st.startswith("assert(") and st.endswith(");"):
                            new_dead.add(e["line"])
            if not new_removed and not new_dead:
                break
            removed |= new_removed
            dead_lines |= new_dead
            if len(removed) >= len(clause_labs):
                break
            drop = {ln for ln in region if m["linemap"].get(str(ln)) in removed}
            var = []
            for k, l in enumerate(lines):
                if (k + 1) in drop:
                    var.append("")
                elif (k + 1) in dead_lines:
                    var.append("// [unmask] " + l.strip())
                else:
                    var.append(l)
            vpath = rs[:-3] + "_unmask.rs"
            with open(vpath, "w") as f:
                f.write("\n".join(var) + "\n")
            res = _run_verus(vpath, list(extra) + ["--verify-function", fk, "--verify-root"])
            vfile = os.path.basename(vpath)
            newfail = False
            for d in res["diags"]:
                c = classify(d)
                if c == "frontend":
                    raise RuntimeError("variant for %s does not compile: %s" % (fk, (d.get("message") or "")[:200]))
                if c != "verif":
                    continue
                spans = [x for x in (resolve_span(sp, vfile) for sp in d.get("spans", [])) if x is not None]
                msg = d.get("message") or ""
                if "postcondition" in msg:
                    cand = [sp for sp in spans if (sp.get("label") or "").startswith("failed this ")]
                elif "assertion failed" in msg:
                    cand = [sp for sp in spans if sp.get("is_primary")]
                else:
                    continue
                for sp in cand:
                    for ln in range(sp["line_start"], sp["line_end"] + 1):
                        lab = m["linemap"].get(str(ln))
                        if lab in obl and lab not in removed and obl[lab]["discharged"]:
                            obl[lab]["discharged"] = False
                            obl[lab]["errors"].append(dict(
                                message=msg + " (found by the unmasking pass: hidden behind %s)" % ", ".join(sorted(removed | {m["linemap"].get(str(x), "?") for x in dead_lines})),
                                function=fk, line=ln, rendered=(d.get("rendered") or "")[:4000]))
                            newfail = True
                        elif lab in obl and "assertion failed" in msg and ln not in dead_lines:
                            # a further failing hint of an already failed label: record it so that the next round removes it
                            obl[lab]["errors"].append(dict(message=msg, function=fk, line=ln, rendered=(d.get("rendered") or "")[:2000]))
                            newfail = True
            if not newfail:
                break


def _is_one_line_assert(lines, ln):
    st = lines[ln - 1].strip()
    return st.startswith("assert(") and st.endswith(");")


def _span_text(lines, sp):
    ls, cs, le, ce = sp
    if ls == le:
        return lines[ls - 1][cs - 1:ce - 1]
    return lines[ls - 1][cs - 1:]


def _conditional(m, lines, obl, extra):
    """Third pass: which `ok` obligations of a function are proved only DOWNSTREAM of a failed check?

    Verus assumes what it failed to prove and goes on: a loop invariant clause that is not established is still assumed
    at the loop head (body, exits and everything after the loop are verified under it); a call whose precondition
    failed still delivers its postcondition; a failed overflow / index / multi-line assert is assumed to hold
    afterwards.  An obligation that Verus reports proved in such a function may therefore be proved from a false
    assumption.  It must not be counted as discharged, and it is not a refutation either: it is CONDITIONAL
    (`obl[l]["conditional"]` = reasons); a property whose obligations are proved-or-conditional, none failed, is
    reported undecided by ./check (exit 2), never OK and never VIOLATION.

    Per function with failures located in it:
      (c) failed invariant / loop-ensures clauses -> a variant in which exactly those clause spans read `true`, and
          failed preconditions of proof-lemma calls (`lemma_*(..)`) -> the call reads `()`
          (together with the postcondition groups and one-line hint asserts that _unmask removed); every labelled
          obligation that fails in the variant but was ok depends on the removed clause -> conditional.  Iterated,
          because a clause uncovered in one round is assumed again in the next.
      (d) any other failure that cannot be taken out of the text (call precondition, arithmetic, index, panic
          reachability, termination, multi-line assert) -- in the original or in a variant -> every remaining ok
          obligation with a clause inside this function is conditional (no finer path analysis is attempted)."""
    rs = m["rs"]
    vfile_base = rs[:-3] + "_cond.rs"
    for (s_, e_, fk) in m["fnmap"]:
        errs = [(lab, e) for lab, o in obl.items() for e in o["errors"]
                if e.get("function") == fk and s_ <= (e.get("line") or 0) <= e_]
        if not errs:
            continue
        local = sorted({m["linemap"][str(ln)] for ln in range(s_, e_ + 1) if str(ln) in m["linemap"]} & set(obl))
        body_lab = "%s.body" % fk
        if body_lab in obl:
            local.append(body_lab)

        def still_ok():
            return [l for l in local if obl[l]["discharged"] and not obl[l].get("conditional")]
        if not still_ok():
            continue
        # header region (contract) of the function: failed postcondition groups are dropped there, as in _unmask
        region = []
        for ln in range(s_, e_ + 1):
            st = lines[ln - 1].strip()
            if ln > s_ and (st == "{" or st.startswith("{")):
                break
            region.append(ln)
        def kind(e):
            msg = e.get("message") or ""
            if "invariant not satisfied" in msg:
                return "inv"
            if "postcondition" in msg:
                return "post"
            if "assertion failed" in msg and _is_one_line_assert(lines, e["line"]) and e["line"] not in region:
                return "assert1"
            if "precondition not satisfied" in msg and e.get("span") and _span_text(lines, e["span"]).startswith("lemma_"):
                return "lemma_pre"      # a proof-lemma call (all lemmas of the units are named lemma_*): can be taken out
            return "hard"
        hard = [(lab, e) for lab, e in errs if kind(e) == "hard"]
        inv = {tuple(e["span"]): lab for lab, e in errs if kind(e) in ("inv", "lemma_pre") and e.get("span")}
        repl = {tuple(e["span"]): ("()" if kind(e) == "lemma_pre" else "true") for lab, e in errs if e.get("span")}
        inv_nospan = [(lab, e) for lab, e in errs if kind(e) == "inv" and not e.get("span")]
        hard += inv_nospan
        reason_hard = None
        if hard:
            reason_hard = "%s: %s (line %d, obligation %s) is assumed by Verus on the rest of the path" % (
                fk, hard[0][1]["message"], hard[0][1]["line"], hard[0][0])
        removed_spans = {}
        rounds = 0
        while inv and not reason_hard and rounds < 6:
            new = {sp: lab for sp, lab in inv.items() if sp not in removed_spans}
            if not new:
                break
            removed_spans.update(new)
            rounds += 1
            failed_labs = {l for l in local if not obl[l]["discharged"]}
            drop = {ln for ln in region if m["linemap"].get(str(ln)) in failed_labs
                    and any("postcondition" in (e["message"] or "") for e in obl[m["linemap"][str(ln)]]["errors"] if e.get("function") == fk)}
            dead = {e["line"] for lab, e in errs if kind(e) == "assert1"}
            var = list(lines)
            for ln in drop:
                var[ln - 1] = ""
            for ln in dead:
                var[ln - 1] = "// [cond] " + lines[ln - 1].strip()
            for (ls, cs, le, ce) in sorted(removed_spans, reverse=True):
                word = repl.get((ls, cs, le, ce), "true")
                if ls == le:
                    var[ls - 1] = var[ls - 1][:cs - 1] + word + var[ls - 1][ce - 1:]
                else:
                    var[ls - 1] = var[ls - 1][:cs - 1] + word
                    for k in range(ls + 1, le):
                        var[k - 1] = ""
                    var[le - 1] = var[le - 1][ce - 1:]
            with open(vfile_base, "w") as f:
                f.write("\n".join(var) + "\n")
            res = _run_verus(vfile_base, list(extra) + ["--verify-function", fk, "--verify-root"])
            vfile = os.path.basename(vfile_base)
            why = "proved only under the loop invariant clause(s) / lemma call(s) of %s that failed: %s" % (
                fk, ", ".join("%s@%d" % (lab, sp[0]) for sp, lab in sorted(removed_spans.items())))
            for d in res["diags"]:
                c = classify(d)
                if c == "frontend":
                    raise RuntimeError("conditional-pass variant for %s does not compile: %s" % (fk, (d.get("message") or "")[:200]))
                if c == "resource":
                    reason_hard = "%s: solver resource limit in the variant without the failed invariant clause" % fk
                    continue
                if c != "verif":
                    continue
                spans = [x for x in (resolve_span(sp, vfile) for sp in d.get("spans", [])) if x is not None]
                msg = d.get("message") or ""
                clause = [sp for sp in spans if (sp.get("label") or "").startswith("failed this ")]
                prim = clause or [sp for sp in spans if sp.get("is_primary")] or spans
                if not prim:
                    reason_hard = "%s: unattributable failure in the variant" % fk
                    continue
                p0 = prim[0]
                lab = None
                for ln in range(p0["line_start"], p0["line_end"] + 1):
                    lab = m["linemap"].get(str(ln))
                    if lab in obl:
                        break
                    lab = None
                if lab is None:
                    lab = body_lab if body_lab in obl else None
                e2 = dict(message=msg, function=fk, line=p0["line_start"],
                          span=[p0["line_start"], p0["column_start"], p0["line_end"], p0["column_end"]])
                k2 = kind(e2)
                if lab and obl[lab]["discharged"]:
                    obl[lab].setdefault("conditional", [])
                    if why not in obl[lab]["conditional"]:
                        obl[lab]["conditional"].append(why)
                if k2 in ("inv", "lemma_pre"):
                    inv.setdefault(tuple(e2["span"]), lab or body_lab)
                    repl[tuple(e2["span"])] = "()" if k2 == "lemma_pre" else "true"
                elif k2 == "hard":
                    reason_hard = "%s: without the failed invariant clause, %s (line %d) fails and is assumed by Verus on the rest of the path" % (
                        fk, msg, p0["line_start"])
        if reason_hard:
            for l in still_ok():
                obl[l].setdefault("conditional", []).append(reason_hard)


def _propagate(m, lines, obl, extra):
    """Fourth pass: conditional marks across calls.  Verification is modular: a caller is checked against the callee's
    CONTRACT.  If a postcondition clause group of a callee failed (or is itself only conditionally proved), every
    caller obligation whose proof uses that clause is proved from something that does not hold on this tree.  For each
    function with such clause groups: a variant of the file without them, each caller (textual: `name(` occurs in its
    body) re-verified alone; obligations that fail then and were ok become CONDITIONAL.  Repeated until nothing
    changes (a caller's own postcondition that became conditional is handled in the next round)."""
    rs = m["rs"]
    vpath = rs[:-3] + "_prop.rs"
    vfile = os.path.basename(vpath)
    fns = list(m["fnmap"])

    def header(s_, e_):
        region = []
        for ln in range(s_, e_ + 1):
            st = lines[ln - 1].strip()
            if ln > s_ and (st == "{" or st.startswith("{")):
                break
            region.append(ln)
        return region
    done = set()
    also_bad = {}       # function -> labels of ITS contract that failed when a callee's failed clause was taken away
    for _round in range(6):
        changed = False
        for (s_, e_, fk) in fns:
            region = header(s_, e_)
            labs = {m["linemap"].get(str(ln)) for ln in region} - {None}
            bad = set(l for l in also_bad.get(fk, set()) if l in labs)
            for l in labs:
                if l not in obl or obl[l]["kind"] != "clause":
                    continue
                if obl[l].get("conditional"):
                    bad.add(l)
                elif not obl[l]["discharged"] and any(e.get("function") == fk and "postcondition" in (e.get("message") or "")
                                                      for e in obl[l]["errors"]):
                    bad.add(l)
            key = (fk, frozenset(bad))
            if not bad or key in done:
                continue
            done.add(key)
            short = fk.split("::")[-1]
            pat = re.compile(r"(?<![A-Za-z0-9_])%s\s*(::<[^>]*>)?\s*\(" % re.escape(short))
            callers = []
            for (s2, e2, g) in fns:
                if g == fk:
                    continue
                body_start = header(s2, e2)[-1] + 1
                if any(pat.search(lines[k - 1]) for k in range(body_start, e2 + 1)):
                    callers.append(g)
            if not callers:
                continue
            drop = {ln for ln in region if m["linemap"].get(str(ln)) in bad}
            var = ["" if (k + 1) in drop else l for k, l in enumerate(lines)]
            with open(vpath, "w") as f:
                f.write("\n".join(var) + "\n")
            why = "uses clause(s) %s of the contract of %s, which failed or are only conditionally proved on this tree" % (
                ", ".join(sorted(bad)), fk)
            for g in callers:
                res = _run_verus(vpath, list(extra) + ["--verify-function", g, "--verify-root"])
                grange = [(s2, e2) for (s2, e2, g2) in fns if g2 == g][0]
                hard = False
                hit = set()
                for d in res["diags"]:
                    c = classify(d)
                    if c == "frontend":
                        raise RuntimeError("propagation variant for %s does not compile: %s" % (fk, (d.get("message") or "")[:200]))
                    if c == "resource":
                        hard = True
                        continue
                    if c != "verif":
                        continue
                    spans = [x for x in (resolve_span(sp, vfile) for sp in d.get("spans", [])) if x is not None]
                    clause = [sp for sp in spans if (sp.get("label") or "").startswith("failed this ")]
                    prim = clause or [sp for sp in spans if sp.get("is_primary")] or spans
                    lab = None
                    for sp in prim:
                        for ln in range(sp["line_start"], sp["line_end"] + 1):
                            if m["linemap"].get(str(ln)) in obl:
                                lab = m["linemap"][str(ln)]
                                break
                        if lab:
                            break
                    if lab is None:
                        lab = "%s.body" % g if ("%s.body" % g) in obl else None
                        hard = True      # a body failure in the caller masks the rest of that caller
                    if lab:
                        hit.add(lab)
                        # the caller's own contract clause (same label already failed elsewhere, e.g. Hunk::view and
                        # HunkView::new share C02.view_trim): its callers must be looked at as well
                        if any((sp["line_start"] <= ln <= sp["line_end"]) for sp in prim for ln in header(grange[0], grange[1])) \
                                and lab not in also_bad.get(g, set()):
                            also_bad.setdefault(g, set()).add(lab)
                            changed = True
                if hard:
                    for ln in range(grange[0], grange[1] + 1):
                        l2 = m["linemap"].get(str(ln))
                        if l2 in obl:
                            hit.add(l2)
                    if ("%s.body" % g) in obl:
                        hit.add("%s.body" % g)
                for lab in hit:
                    if obl[lab]["discharged"] and why not in obl[lab].get("conditional", []):
                        obl[lab].setdefault("conditional", []).append(why)
                        changed = True
        if not changed:
            break


def verify_unit(unit, canary=True, extra=()):
    r = UnitResult()
    r.unit = unit
    r.errors = []
    r.canary = None
    r.canaries = []
    r.undecided_reason = None
    upath = os.path.join(B.VX, "units", unit + ".vu")
    try:
        m = B.build(upath, WORK)
    except (B.BuildError, rsx.ScanError) as e:
        r.status = "undecided"
        r.undecided_reason = "extraction: %s" % e
        r.map = None
        return r
    r.map = m
    text = open(m["rs"]).read()
    lines = text.split("\n")
    if m.get("verify_only"):
        extra = list(extra) + ["--verify-function", m["verify_only"], "--verify-root"]
    res = _run_verus(m["rs"], extra)
    # ---- resource-out retry.  A proof that FAILS often exhausts the solver's resource limit instead of failing cleanly
    # (and an unstable one may tip over after an unrelated edit).  Every function that hit the limit is re-verified ALONE
    # with four times the limit; its diagnostics from that run replace the resource-out.  Still out of resources ->
    # undecided as before; verified -> recorded as an instability note, not as a failure.
    r.rlimit_retries = []
    if any(classify(d) == "resource" for d in res["diags"]) and not m.get("verify_only"):
        keep = []
        retry_fns = []
        unit_file0 = os.path.basename(m["rs"])
        for d in res["diags"]:
            if classify(d) != "resource":
                keep.append(d)
                continue
            spans = [x for x in (resolve_span(sp, unit_file0) for sp in d.get("spans", [])) if x is not None]
            fn = None
            if spans:
                pl0 = spans[0]["line_start"]
                for (s0, e0, fk0) in m["fnmap"]:
                    if s0 <= pl0 <= e0:
                        fn = fk0
                if fn is None:
                    fn = _enclosing_fn(lines, pl0)
            if fn is None:
                keep.append(d)
            elif fn not in retry_fns:
                retry_fns.append(fn)
        for fn in retry_fns:
            res2 = _run_verus(m["rs"], list(extra) + ["--verify-function", fn, "--verify-root"], rlimit=int(RLIMIT) * 4)
            out2 = [d for d in res2["diags"] if classify(d) in ("verif", "resource", "frontend")]
            r.rlimit_retries.append(dict(function=fn, outcome=("verified" if not out2 else
                                         "resource" if any(classify(d) == "resource" for d in out2) else "failed")))
            keep.extend(out2)
        res["diags"] = keep
    r.cmd = res["cmd"]
    r.wall = res["wall"]
    r.raw = res
    # function table
    r.functions = {}
    smt_ms = 0
    if res["json"] and "times-ms" in res["json"]:
        tm = res["json"]["times-ms"]
        smt_ms = tm.get("smt", {}).get("total", 0)
        for mod in tm.get("smt", {}).get("smt-run-module-times", []):
            for f in mod.get("function-breakdown", []):
                name = f["function"].split("::", 1)[1] if "::" in f["function"] else f["function"]
                r.functions[name] = dict(success=f["success"], time_us=f.get("time-micros", 0), rlimit=f.get("rlimit", 0),
                                         mode=f.get("mode:", ""))
    r.smt_ms = smt_ms
    r.verus_version = (res["json"] or {}).get("verus", {}).get("version")
    vr = (res["json"] or {}).get("verification-results", {})
    r.verified_count = vr.get("verified", 0)
    r.error_count = vr.get("errors", 0)
    # obligations table
    obl = {}
    for lab, d in m["labels"].items():
        obl[lab] = dict(props=d["props"], desc=d["desc"], discharged=True, kind="clause", errors=[])
    for (s, e, fk) in m["fnmap"]:
        lab = "%s.body" % fk
        ex = [x for x in m["extraction"] if x.get("function") == fk]
        if ex and ex[0].get("stub"):
            continue
        obl[lab] = dict(props=m["fnprops"].get(fk, []), desc="body of %s: every call precondition, index, arithmetic operation, "
                        "assert!/unreachable! and loop termination" % fk, discharged=True, kind="body", errors=[])
    # every labelled line must belong to a declared label
    for ln, lab in m["linemap"].items():
        if lab not in obl:
            if lab.endswith(".contract") or lab.endswith(".hint") or re.search(r"\.loop\d+$", lab):
                continue
            obl[lab] = dict(props=[], desc="(undeclared label)", discharged=True, kind="clause", errors=[])
    frontend = []
    resource = []
    for d in res["diags"]:
        c = classify(d)
        if c in ("warn", "skip"):
            continue
        if c == "frontend":
            frontend.append(d.get("rendered") or d.get("message"))
            continue
        if c == "resource":
            resource.append(d.get("rendered") or d.get("message"))
            continue
        unit_file = os.path.basename(m["rs"])
        spans = [x for x in (resolve_span(sp, unit_file) for sp in d.get("spans", [])) if x is not None]
        if not spans:
            frontend.append("diagnostic without a position in the unit file: " + (d.get("rendered") or d.get("message")))
            continue
        # the clause that failed (postcondition / invariant) is what names the obligation; for preconditions and
        # body checks it is the primary span (the call site / operation), never the callee's requires clause
        clause = [s for s in spans if (s.get("label") or "").startswith("failed this ")]
        prim = clause or [s for s in spans if s.get("is_primary")] or spans
        label = None
        fnname = None
        for s in prim:
            for ln in range(s["line_start"], s["line_end"] + 1):
                lab = m["linemap"].get(str(ln))
                if lab and lab in obl:
                    label = lab
                    break
            if label:
                break
        pl = prim[0]["line_start"] if prim else 0
        for (s, e, fk) in m["fnmap"]:
            if s <= pl <= e:
                fnname = fk
        if fnname is None and pl:
            fnname = _enclosing_fn(lines, pl)
        if label is None:
            # a clause of a contract/loop without explicit label, or body code
            cand = "%s.body" % fnname if fnname else None
            if cand in obl:
                label = cand
            elif fnname and ("lemma:" + fnname) in obl:
                label = "lemma:" + fnname
            elif fnname:
                label = "lemma:" + fnname
                obl[label] = dict(props=sorted({p for o in obl.values() for p in o["props"]}),
                                  desc="proof fn %s (undeclared; attributed to every property of the unit)" % fnname,
                                  discharged=True, kind="lemma", errors=[])
            else:
                frontend.append("unattributable error: " + (d.get("rendered") or d.get("message")))
                continue
        obl[label]["discharged"] = False
        p0 = prim[0] if prim else None
        obl[label]["errors"].append(dict(message=d.get("message"), function=fnname, line=pl,
                                         span=([p0["line_start"], p0["column_start"], p0["line_end"], p0["column_end"]]
                                               if p0 and "column_start" in p0 else None),
                                         rendered=(d.get("rendered") or "")[:4000]))
    # ---- unmasking pass.  With --multiple-errors Verus ASSUMES a failed postcondition and checks the following
    # clauses of the same exit under that assumption; a false earlier clause therefore masks every later one (which may
    # carry a different property).  For each function with a failed labelled postcondition, re-verify ONLY that
    # function on a variant of the file where the already-failed clause groups are removed from its ensures, until no
    # new clause fails.  Callers are not re-verified in this pass, so removing clauses from the contract cannot affect them.
    if not frontend and not resource:
        try:
            _unmask(m, lines, obl, extra)
            _conditional(m, lines, obl, extra)
            _propagate(m, lines, obl, extra)
        except Exception as e:          # the passes can only ADD failures; if one breaks, say so instead of hiding it
            frontend.append("unmasking pass failed: %r" % (e,))
    r.obligations = obl
    r.frontend = frontend
    r.resource = resource
    r.assumptions = scan_assumptions(text)
    if frontend or res["json"] is None or vr.get("encountered-vir-error"):
        r.status = "undecided"
        r.undecided_reason = "front-end/tool error: " + ("; ".join(x.split("\n")[0] for x in frontend[:3]) or
                                                          "; ".join(res["stderr_other"][:5]))
        return r
    if resource:
        r.status = "undecided"
        r.undecided_reason = "solver resource limit: " + "; ".join(x.split("\n")[0] for x in resource[:3])
        return r
    failed = [k for k, v in obl.items() if not v["discharged"]]
    if failed:
        r.status = "failed"
    elif not vr.get("success"):
        r.status = "undecided"
        r.undecided_reason = "verus reported failure without an attributable diagnostic"
    else:
        r.status = "ok"
    # functions that verus reports as failed must be covered by some failed obligation
    for fn, fd in r.functions.items():
        if not fd["success"] and not failed:
            r.status = "undecided"
            r.undecided_reason = "function %s failed without diagnostic" % fn
    # vacuity: obligation count > 0 and verus verified > 0
    if r.status == "ok" and (r.verified_count == 0 or not obl):
        r.status = "undecided"
        r.undecided_reason = "vacuous run: zero obligations"
    # canaries: `ensures false` injected on each listed function must be REFUTED (vacuity / broken-injector guard).
    # quick tier: the first two targets; thorough (VERIF_TIER=thorough or canary="all"): every target.
    r.canary = None
    r.canaries = []
    if canary and r.status == "ok" and m.get("canaries"):
        targets = list(m["canaries"])
        if not (canary == "all" or os.environ.get("VERIF_TIER") == "thorough"):
            targets = targets[:2]
        for tg in targets:
            try:
                cm = B.build(upath, WORK, canary=tg)
                cres = _run_verus(cm["rs"], list(extra) + ["--verify-function", tg, "--verify-root"])
                # the guard is against `false` being PROVED (vacuous preconditions, broken injection): the canary has done
                # its job when Verus does not verify the function - by a reported failure or, for a big function, by
                # exhausting the resource limit while searching for a proof of false (then also no "N verified, 0 errors")
                cfail = any(classify(d) == "verif" for d in cres["diags"])
                cres_out = any(classify(d) == "resource" for d in cres["diags"])
                cvr = (cres["json"] or {}).get("verification-results", {})
                not_proved = cfail or (cres_out and not cvr.get("success"))
                cfront = [d for d in cres["diags"] if classify(d) == "frontend"]
                ent = dict(function=tg, failed_as_required=bool(not_proved and not cfront), wall=round(cres["wall"], 2),
                           how=("failure reported" if cfail else "resource limit exhausted, not verified" if cres_out else "VERIFIED"))
                r.canaries.append(ent)
                if not ent["failed_as_required"]:
                    r.status = "undecided"
                    r.undecided_reason = ("canary: `ensures false` on %s was NOT refuted (vacuous preconditions, broken "
                                          "injection or unknown function name)" % tg)
                    break
            except (B.BuildError, rsx.ScanError) as e:
                r.status = "undecided"
                r.undecided_reason = "canary build: %s" % e
                break
        if r.canaries:
            r.canary = r.canaries[0]
    return r


if __name__ == "__main__":
    r = verify_unit(sys.argv[1], canary=("--no-canary" not in sys.argv))
    print("status:", r.status, r.undecided_reason or "")
    if r.map:
        print("verified fns:", r.verified_count, "errors:", r.error_count, "wall %.1fs smt %dms" % (r.wall, r.smt_ms))
        for k, v in sorted(r.obligations.items()):
            print("  %-45s %-9s props=%s" % (k, ("FAILED" if not v["discharged"] else "COND" if v.get("conditional") else "ok"), ",".join(v["props"])))
            for c_ in v.get("conditional", []):
                print("       conditional:", c_)
            for e in v["errors"]:
                print("      ", e["message"], "in", e["function"], "line", e["line"])
        if r.frontend:
            print("\n".join(r.frontend[:10]))
        if r.resource:
            print("\n".join(r.resource[:10]))
        print("canaries:", r.canaries)
        print("assumptions:", len(r.assumptions))
