"""Unit builder: mechanical extraction of real items from /repo + contract injection.

Reads a unit description (vx/units/<unit>.vu), extracts the named items from the
repository's *current working tree*, applies the closed list of rewrite rules
(DESIGN.md 3.1), injects contracts / loop invariants / proof hints, and writes
work/<unit>.rs plus work/<unit>.map.json (generated line -> obligation label,
function map, extraction report with per-item source hash and token self-check).

Exit/exception policy: any lost anchor, ambiguous match or scan problem raises
BuildError -> the caller exits 2 (undecided).  Never a verdict.
"""
import hashlib
import json
import os
import re
import sys

sys.path.insert(0, os.path.dirname(__file__))
import rsx  # noqa: E402

VX = os.path.dirname(os.path.abspath(__file__))
VERIF = os.path.dirname(VX)
REPO = os.environ.get("VERIF_REPO", "/repo")


class BuildError(Exception):
    pass


# --------------------------------------------------------------------------- unit file parsing

class Unit:
    def __init__(self, name):
        self.name = name
        self.prelude = []
        self.specs = []
        self.takes = []      # dicts: {file, kind, name, methods, stub, key}
        self.contracts = {}  # fnkey -> {lines:[(label,text)], props:[..], ret: name}
        self.loops = {}      # (fnkey, ordinal) -> [(label,text)]
        self.hints = []      # {fn, where, anchor, lines, nth}
        self.replaces = []   # {fn, old, new, rule}
        self.raws = []       # [(label, text lines)]
        self.labels = {}     # label -> {props, desc}
        self.fnprops = {}    # fnkey -> props
        self.canary = None   # fnkey of the top-level function for the canary run
        self.expect_fail = {}


def parse_unit(path):
    name = os.path.splitext(os.path.basename(path))[0]
    u = Unit(name)
    cur_file = None
    block = None  # (kind, data)
    cur_label = None
    with open(path) as f:
        lines0 = f.read().split("\n")
    lines = []
    for raw in lines0:
        if raw.strip().startswith("//@ include "):
            inc = os.path.join(os.path.dirname(path), raw.strip().split()[2])
            lines += open(inc).read().split("\n")
        else:
            lines.append(raw)
    for ln, raw in enumerate(lines, 1):
        s = raw.strip()
        if s.startswith("//@"):
            d = s[3:].strip()
            if d == "end":
                block = None
                cur_label = None
                continue
            if d.startswith("label "):
                cur_label = d.split()[1]
                continue
            if block is not None and block[0] == "raw" and not d.split()[0] in (
                    "unit", "prelude", "specs", "from", "take", "stub", "contract", "loop", "hint", "replace", "raw",
                    "obligation", "canary", "derive_eq", "include", "desugar_enumerate", "mut_self", "block", "replace_macro", "verify_only", "inline_bytestr", "name_wildcards", "replace_all"):
                continue
            block = None
            cur_label = None
            w = d.split()
            if not w:
                continue
            if w[0] == "unit":
                u.name = w[1]
            elif w[0] == "prelude":
                u.prelude += w[1:]
            elif w[0] == "specs":
                u.specs += w[1:]
            elif w[0] == "from":
                cur_file = w[1]
            elif w[0] in ("take", "stub"):
                kind = w[1]
                rest = d.split(None, 2)[2]
                methods = None
                if kind == "impl":
                    if "::" in rest and " :: " in rest:
                        hdr, ms = rest.split(" :: ", 1)
                        methods = ms.split()
                    else:
                        hdr = rest
                    u.takes.append(dict(file=cur_file, kind="impl", name=hdr.strip(), methods=methods,
                                        stub=(w[0] == "stub"), line=ln))
                else:
                    u.takes.append(dict(file=cur_file, kind=kind, name=rest.strip(), methods=None,
                                        stub=(w[0] == "stub"), line=ln))
            elif w[0] == "contract":
                key = w[1]
                opts = dict(x.split("=", 1) for x in w[2:] if "=" in x)
                c = dict(lines=[], props=opts.get("props", "").split(",") if opts.get("props") else [],
                         ret=opts.get("ret", "r"), line=ln)
                u.contracts[key] = c
                block = ("contract", c, key)
            elif w[0] == "loop":
                key = (w[1], int(w[2]))
                u.loops[key] = dict(lines=[], line=ln)
                block = ("loop", u.loops[key], "%s.loop%d" % key)
            elif w[0] == "hint":
                m = re.match(r"hint\s+(\S+)\s+(before|after_block|after_stmt|after|replace)\s+`(.*)`(\s+nth=(\d+))?\s*$", d)
                if not m:
                    raise BuildError("%s:%d bad hint directive" % (path, ln))
                h = dict(fn=m.group(1), where=m.group(2), anchor=m.group(3), lines=[], nth=int(m.group(5) or 0),
                         line=ln)
                u.hints.append(h)
                block = ("hint", h, None)
            elif w[0] == "replace":
                m = re.match(r"replace\s+(\S+)\s+(\S+)\s+`(.*)`\s+=>\s+`(.*)`\s*$", d)
                if not m:
                    raise BuildError("%s:%d bad replace directive" % (path, ln))
                u.replaces.append(dict(fn=m.group(1), rule=m.group(2), old=m.group(3), new=m.group(4), line=ln))
            elif w[0] == "replace_all":
                # like `replace`, for rewrite rules of an EXPRESSION FORM (not anchors): every occurrence, at least one
                m = re.match(r"replace_all\s+(\S+)\s+(\S+)\s+`(.*)`\s+=>\s+`(.*)`\s*$", d)
                if not m:
                    raise BuildError("%s:%d bad replace_all directive" % (path, ln))
                u.replaces.append(dict(fn=m.group(1), rule=m.group(2), old=m.group(3), new=m.group(4), line=ln, all=True))
            elif w[0] == "replace_macro":
                m = re.match(r"replace_macro\s+(\S+)\s+(\S+)\s+(\S+)\s+=>\s+`(.*)`\s*$", d)
                if not m:
                    raise BuildError("%s:%d bad replace_macro directive" % (path, ln))
                u.macro_replaces = getattr(u, "macro_replaces", []) + [dict(fn=m.group(1), rule=m.group(2), macro=m.group(3), new=m.group(4))]
            elif w[0] == "raw":
                r = dict(lines=[], line=ln)
                u.raws.append(r)
                block = ("raw", r, None)
            elif w[0] == "obligation":
                m = re.match(r"obligation\s+(\S+)\s+props=(\S+)\s*:?\s*(.*)$", d)
                if not m:
                    raise BuildError("%s:%d bad obligation directive" % (path, ln))
                u.labels[m.group(1)] = dict(props=m.group(2).split(","), desc=m.group(3))
            elif w[0] == "verify_only":
                # the unit exists for ONE function/lemma (everything else in it is vocabulary verified by another unit):
                # `verus --verify-function NAME --verify-root`
                u.verify_only = w[1]
            elif w[0] == "canary":
                u.canary = w[1]
                u.canaries = getattr(u, "canaries", []) + w[1:]
            elif w[0] == "block":
                blk = dict(file=cur_file, fn=w[1], name=w[2], lines=[], line=ln)
                u.blocks = getattr(u, "blocks", []) + [blk]
                u.takes.append(dict(file=cur_file, kind="block", name=w[2], methods=None, stub=False, line=ln, block=blk))
                block = ("blockdef", blk, None)
            elif w[0] == "desugar_enumerate":
                u.desugar = getattr(u, "desugar", []) + [(w[1], int(w[2]))]
            elif w[0] == "mut_self":
                u.mut_self = getattr(u, "mut_self", []) + [w[1]]
            elif w[0] == "inline_bytestr":
                u.inline_bytestr = getattr(u, "inline_bytestr", []) + [w[1]]
            elif w[0] == "name_wildcards":
                u.name_wildcards = getattr(u, "name_wildcards", []) + [w[1]]
            elif w[0] == "derive_eq":
                u.derive_eq = getattr(u, "derive_eq", []) + w[1:]
            else:
                raise BuildError("%s:%d unknown directive %r" % (path, ln, w[0]))
            continue
        if block is not None:
            kind, data, deflabel = block
            data["lines"].append((cur_label, raw))
    return u


# --------------------------------------------------------------------------- extraction

R4_RENAMES = {"cloned": "v_cloned", "splice": "v_splice", "values_mut": "v_values_mut", "reserve": "v_reserve",
              "extend": "v_extend", "take": "v_take", "clear": "v_clear", "is_empty": "v_is_empty",
              "first": "v_first", "strip_prefix": "v_strip_prefix"}
# only the renames a unit asks for are applied (unit option), default set below
DEFAULT_R4 = ("cloned", "splice", "values_mut", "reserve")

DROP_ATTRS = re.compile(r"^(inline|allow|builder|cfg_attr|doc|must_use)\b")


def _rewrite_attrs(text, report):
    """D3: drop/trim attributes."""
    toks = rsx.tokenize(text)
    out = []
    pos = 0
    i = 0
    while i < len(toks):
        t = toks[i]
        if t[1] == "#" and i + 1 < len(toks) and toks[i + 1][1] == "[":
            j = rsx.match_close(toks, i + 1)
            inner = text[toks[i + 2][2]:toks[j - 1][3]] if j - 1 >= i + 2 else ""
            new = None
            if DROP_ATTRS.match(inner):
                new = ""
                report.append("D3 drop #[%s]" % inner.split("(")[0])
            elif inner.startswith("derive"):
                names = [x.strip() for x in inner[inner.index("(") + 1:inner.rindex(")")].split(",") if x.strip()]
                keep = [x for x in names if x not in ("Debug", "Builder", "Default")]
                if keep != names:
                    report.append("D3 derive(%s) -> derive(%s)" % (",".join(names), ",".join(keep)))
                new = ("#[derive(%s)]" % ", ".join(keep)) if keep else ""
            if new is not None:
                out.append(text[pos:t[2]])
                out.append(new)
                pos = toks[j][3]
            i = j + 1
            continue
        i += 1
    out.append(text[pos:])
    return "".join(out)


def _add_pub_struct_fields(text):
    toks = rsx.tokenize(text)
    # find body brace
    k = 0
    while toks[k][1] != "struct":
        k += 1
    while k < len(toks) and toks[k][1] not in ("{", ";", "("):
        k += 1
    if k >= len(toks) or toks[k][1] != "{":
        return text
    end = rsx.match_close(toks, k)
    ins = []
    j = k + 1
    expect_field = True
    while j < end:
        t = toks[j]
        if expect_field:
            # skip attributes
            while toks[j][1] == "#":
                j = rsx.match_close(toks, j + 1) + 1
            if j >= end:
                break
            if toks[j][1] != "pub":
                ins.append(toks[j][2])
            expect_field = False
            continue
        if t[1] in ("(", "[", "{"):
            j = rsx.match_close(toks, j)
        elif t[1] == "<":
            # skip generics (no commas at our depth)
            d = 0
            while j < end:
                if toks[j][1] == "<":
                    d += 1
                elif toks[j][1] == ">":
                    d -= 1
                    if d == 0:
                        break
                elif toks[j][1] == ">>":
                    d -= 2
                    if d <= 0:
                        break
                j += 1
        elif t[1] == ",":
            expect_field = True
        j += 1
    for p in sorted(ins, reverse=True):
        text = text[:p] + "pub " + text[p:]
    return text


def _ensure_pub(text):
    t = text.lstrip()
    toks = rsx.tokenize(t)
    # skip attributes
    i = 0
    while i < len(toks) and toks[i][1] == "#":
        i = rsx.match_close(toks, i + 1) + 1
    if toks[i][1] == "pub":
        return text
    p = toks[i][2]
    lead = text[:len(text) - len(t)]
    return lead + t[:p] + "pub " + t[p:]


def _apply_r4(text, names, report):
    toks = rsx.tokenize(text)
    out = []
    pos = 0
    for i, t in enumerate(toks):
        if t[0] == "id" and t[1] in names and i > 0 and toks[i - 1][1] == "." and i + 1 < len(toks) and \
                toks[i + 1][1] in ("(", "::"):
            out.append(text[pos:t[2]])
            out.append(R4_RENAMES[t[1]])
            pos = t[3]
            report.append("R4 .%s( -> .%s(" % (t[1], R4_RENAMES[t[1]]))
    out.append(text[pos:])
    return "".join(out)


def _fn_parts(text):
    """For a fn item text return dict(sig_end=pos of body '{', ret=(start,end) of
    return type text or None, body=(open,close) token positions)."""
    toks = rsx.tokenize(text)
    i = 0
    while toks[i][1] != "fn":
        i += 1
    j = i
    arrow = None
    where = None
    while j < len(toks):
        t = toks[j]
        if t[1] in ("(", "["):
            j = rsx.match_close(toks, j)
        elif t[1] == "->" and arrow is None:
            arrow = j
        elif t[1] == "where":
            where = j
        elif t[1] == "{":
            break
        elif t[1] == ";":
            return dict(toks=toks, fn=i, arrow=arrow, where=where, open=None, close=None)
        j += 1
    close = rsx.match_close(toks, j)
    return dict(toks=toks, fn=i, arrow=arrow, where=where, open=j, close=close)


def _loops_in(text, toks, lo, hi):
    """Return list of (kw_index, body_open_index) for loops between token
    indices lo..hi in source order."""
    res = []
    j = lo
    while j < hi:
        t = toks[j]
        if t[0] == "id" and t[1] in ("for", "while", "loop"):
            if t[1] == "for" and toks[j + 1][1] == "<":
                j += 1
                continue
            k = j + 1
            while k < hi:
                if toks[k][1] in ("(", "["):
                    k = rsx.match_close(toks, k)
                elif toks[k][1] == "{":
                    break
                k += 1
            res.append((j, k))
        j += 1
    return res



def _desugar_enumerate(text, k, rules):
    """R7: `for (I, X) in E.iter().enumerate() { B }` (k-th loop of the fn, B contains `continue`) ->
    `let mut I: usize = 0; while I < E.len() { let X = &E[I]; B[continue -> {I += 1; continue;}] I += 1; }`.
    Checked syntactically: B assigns neither I nor E and has no `continue` inside a nested loop."""
    parts = _fn_parts(text)
    toks = parts["toks"]
    loops = _loops_in(text, toks, parts["open"] + 1, parts["close"])
    if k >= len(loops):
        raise BuildError("anchor lost: desugar loop %d (found %d)" % (k, len(loops)))
    kw, bo = loops[k]
    hdr = [t[1] for t in toks[kw:bo]]
    # expected: for ( I , X ) in E... . iter ( ) . enumerate ( )
    if not (hdr[0] == "for" and hdr[1] == "(" and hdr[3] == "," and hdr[5] == ")" and hdr[6] == "in"
            and hdr[-8:] == [".", "iter", "(", ")", ".", "enumerate", "(", ")"]):
        raise BuildError("anchor lost: desugar loop %d is not `for (i, x) in E.iter().enumerate()`: %s" % (k, " ".join(hdr)))
    ivar, xvar = hdr[2], hdr[4]
    e_text = text[toks[kw + 7][2]:toks[bo - 8][2]].strip()
    bc = rsx.match_close(toks, bo)
    # nested loops inside the body
    nested = _loops_in(text, toks, bo + 1, bc)
    nested_ranges = [(toks[b][2], toks[rsx.match_close(toks, b)][3]) for (_, b) in nested]
    body = text[toks[bo][3]:toks[bc][2]]
    base = toks[bo][3]
    # checks on body tokens
    for j in range(bo + 1, bc):
        t = toks[j]
        if t[0] == "id" and t[1] == ivar and toks[j + 1][1] in ("=", "+=", "-="):
            raise BuildError("R7 refused: loop body assigns %s" % ivar)
        if t[0] == "id" and t[1] == "continue":
            if any(a <= t[2] < b for (a, b) in nested_ranges):
                raise BuildError("R7 refused: `continue` inside a nested loop")
    out = []
    pos = 0
    n_cont = 0
    for j in range(bo + 1, bc):
        t = toks[j]
        if t[0] == "id" and t[1] == "continue":
            if toks[j + 1][1] != ";":
                raise BuildError("R7 refused: labelled continue")
            out.append(body[pos:t[2] - base])
            out.append("{ %s += 1; continue; }" % ivar)
            pos = toks[j + 1][3] - base
            n_cont += 1
    out.append(body[pos:])
    newbody = "".join(out)
    indent = " " * 8
    new = ("let mut %s: usize = 0;\n%swhile %s < %s.len() {\n%s    let %s = &%s[%s];%s\n%s    %s += 1;\n%s}"
           % (ivar, indent, ivar, e_text, indent, xvar, e_text, ivar, newbody.rstrip(), indent, ivar, indent))
    rules.append("R7 for (%s, %s) in %s.iter().enumerate() -> while loop (%d continue rewritten)" % (ivar, xvar, e_text, n_cont))
    _desugar_enumerate.last_names = (ivar, xvar)
    return text[:toks[kw][2]] + new + text[toks[bc][3]:]


def _mut_self(text, rules):
    """R5: `fn f(mut self, ..) { B }` -> `fn f(self, ..) { let mut this = self; B[self -> this] }` (Verus rejects `mut self`)."""
    parts = _fn_parts(text)
    toks = parts["toks"]
    # find `mut self` in the parameter list
    k = parts["fn"]
    while toks[k][1] != "(":
        k += 1
    if not (toks[k + 1][1] == "mut" and toks[k + 2][1] == "self"):
        raise BuildError("R5 refused: first parameter is not `mut self`")
    edits = [(toks[k + 1][2], toks[k + 2][2], "")]
    for j in range(parts["open"] + 1, parts["close"]):
        if toks[j][0] == "id" and toks[j][1] == "self":
            edits.append((toks[j][2], toks[j][3], "this"))
    edits.append((toks[parts["open"]][3], toks[parts["open"]][3], "\n        let mut this = self;"))
    for a, b, t in sorted(edits, reverse=True):
        text = text[:a] + t + text[b:]
    rules.append("R5 mut self -> let mut this = self (self. -> this.)")
    return text


def _continue_to_else(text, rules):
    """R8: Verus `for` loops reject `continue`.  Inside a `for` body,
           if C { X; continue; } REST        (the `if` has no else)
       is rewritten to
           if C { X; } else { REST }
       where REST is the remainder of the block that contains the `if`.  Valid, and only applied, when that containing
       block is in TAIL POSITION of the loop body: it is the loop body itself, or the block of an else-less `if`/`if let`
       that is the last statement of a block in tail position (so nothing else would run in this iteration).  Any other
       shape is left alone (Verus then rejects it: exit 2, never a verdict).  while/loop bodies are not touched."""
    changed = True
    n_done = 0
    while changed:
        changed = False
        parts = _fn_parts(text)
        toks = parts["toks"]
        if parts["open"] is None:
            return text
        for (kw, bo) in _loops_in(text, toks, parts["open"] + 1, parts["close"]):
            if toks[kw][1] != "for":
                continue
            bc = rsx.match_close(toks, bo)
            edit = _find_tail_continue(toks, bo, bc)
            if edit is None:
                continue
            cont, semi, ifclose, blkclose = edit
            text = (text[:toks[cont][2]] + text[toks[semi][3]:toks[ifclose][3]] + " else {" +
                    text[toks[ifclose][3]:toks[blkclose][2]] + "}" + text[toks[blkclose][2]:])
            n_done += 1
            changed = True
            break
    if n_done:
        rules.append("R8 `if C { ..; continue; } REST` -> `if C { .. } else { REST }` in a for body (%d time(s))" % n_done)
    return text


def _stmts(toks, bo, bc):
    """top-level statements of block (bo, bc): list of (first_tok, last_tok)."""
    out = []
    j = bo + 1
    start = j
    while j < bc:
        t = toks[j]
        if t[1] in ("(", "[", "{"):
            cl = rsx.match_close(toks, j)
            if t[1] == "{":
                # a block ends a statement unless followed by else / method chain / operator
                nxt = toks[cl + 1][1] if cl + 1 < bc else None
                if nxt not in ("else", ".", "?", ";", ",") and not (nxt in ("=", "==")):
                    out.append((start, cl))
                    start = cl + 1
            j = cl + 1
            continue
        if t[1] == ";":
            out.append((start, j))
            start = j + 1
        j += 1
    if start < bc:
        out.append((start, bc - 1))
    return out


def _if_block(toks, a, b):
    """statement (a,b) is `if COND {BLOCK}` / `if let P = E {BLOCK}` without else -> (open, close) of BLOCK else None.
    The block is the top-level brace group that ENDS the statement (a struct pattern like `Applied { .. }` in an
    `if let` also has braces); a top-level `else` anywhere in the statement disqualifies it."""
    if toks[a][1] != "if":
        return None
    j = a + 1
    last = None
    while j <= b:
        if toks[j][1] in ("(", "[", "{"):
            cl = rsx.match_close(toks, j)
            if toks[j][1] == "{":
                last = (j, cl)
            j = cl + 1
            continue
        if toks[j][1] == "else":
            return None
        j += 1
    if last is not None and last[1] == b:
        return last
    return None


def _find_tail_continue(toks, bo, bc):
    """Search block (bo,bc), which is in tail position, for `if .. { ..; continue; }` (else-less) as a statement; descend
    into the LAST statement if it is an else-less if-block.  Returns (continue_tok, semicolon_tok, if_close, block_close)."""
    st = _stmts(toks, bo, bc)
    for (a, b) in st:
        ib = _if_block(toks, a, b)
        if ib is None:
            continue
        inner = _stmts(toks, ib[0], ib[1])
        if inner:
            la, lb = inner[-1]
            if lb - la == 1 and toks[la][1] == "continue" and toks[lb][1] == ";":
                return (la, lb, ib[1], bc)
    if st:
        ib = _if_block(toks, st[-1][0], st[-1][1])
        if ib is not None:
            return _find_tail_continue(toks, ib[0], ib[1])
    return None


def _decode_bytestr(body, where):
    """bytes of a Rust byte-string literal body (the text between the quotes)"""
    out = []
    i = 0
    simple = {"\\": 92, "n": 10, "r": 13, "t": 9, "0": 0, '"': 34, "'": 39}
    while i < len(body):
        ch = body[i]
        if ch != "\\":
            if ord(ch) > 127:
                raise BuildError("R9-bytestr: non-ASCII character in byte string literal (%s)" % where)
            out.append(ord(ch))
            i += 1
            continue
        nx = body[i + 1]
        if nx in simple:
            out.append(simple[nx])
            i += 2
        elif nx == "x":
            out.append(int(body[i + 2:i + 4], 16))
            i += 4
        elif nx == "\n":
            i += 2
            while i < len(body) and body[i] in " \t\n\r":
                i += 1
        else:
            raise BuildError("R9-bytestr: unknown escape \\%s (%s)" % (nx, where))
    return out


def _inline_bytestr(plain, fnkey, rules, consts):
    """R9-inline (directive `inline_bytestr FNKEY`): byte-string literals used inline in a function body.
         X.strip_prefix(b"LIT")   ->  strip_prefix_lit(X, BS_<hex>)      (X an identifier; shim with ASSUMED contract in the prelude)
         &b"LIT"[..]              ->  BS_<hex>                           (the same `&'static [u8]` value)
       where `BS_<hex>` is a constant generated by rule R9-bytestr from the literal of the real source (bytes decoded on
       every run, literal kept verbatim as the unverified body).  `consts` collects name -> definition text."""
    def const_for(lit, body):
        data = _decode_bytestr(body, fnkey)
        name = "BS_" + ("".join("%02x" % b for b in data) if data else "EMPTY")
        if name not in consts:
            # whole-sequence equality (short literals): every exec read of the constant then yields the same spec value
            seqlit = ("seq![%s]" % ", ".join("%du8" % b for b in data)) if data else "Seq::<u8>::empty()"
            ens = ["%s@.len() == %d" % (name, len(data)), "%s@ == %s" % (name, seqlit)]
            consts[name] = ("#[verifier::external_body]\npub exec const %s: &'static [u8]\n    ensures\n        %s,\n{ %s }\n"
                            % (name, ",\n        ".join(ens), lit))
        return name
    n = [0]

    def sp(m):
        n[0] += 1
        return "strip_prefix_lit(%s, %s)" % (m.group(1), const_for(m.group(2), m.group(3)))
    plain = re.sub(r"""(\b\w+)\s*\.\s*strip_prefix\(\s*(b"((?:[^"\\]|\\.)*)")\s*\)""", sp, plain)

    def full(m):
        n[0] += 1
        return const_for(m.group(1), m.group(2))
    plain = re.sub(r"""&\s*(b"((?:[^"\\]|\\.)*)")\s*\[\s*\.\.\s*\]""", full, plain)
    if n[0]:
        rules.append("R9-inline %d byte-string literal(s) -> generated constants / strip_prefix_lit" % n[0])
    return plain


def _name_wildcards(plain, rules):
    """R6-wildcard (directive `name_wildcards FNKEY`): a closure parameter `_` gets a name (`|_|` -> `|_w|`); Verus accepts
    only variables as closure parameters.  The parameter stays unused."""
    new, k = re.subn(r"\|\s*_\s*\|", "|_w|", plain)
    if k:
        rules.append("R6-wildcard %d closure parameter(s) `_` named `_w`" % k)
    return new


def _bytestr_const(plain, name, rules):
    """R9-bytestr: `const X: &[u8] = b"...";`  ->  `#[verifier::external_body] exec const X: &'static [u8]
    ensures X@.len() == N, X@[0] == b0, ... { b"..." }`.  Verus has no value semantics for byte-string literals, so the
    extractor DECODES the literal of the real source (Rust reference, byte string literals: backslash, n, r, t, 0,
    quotes, xHH and line continuation) and states its bytes; the literal itself is kept verbatim as the (unverified)
    body.  Any other const is returned unchanged; an escape this decoder does not know is a BuildError (undecided)."""
    m = re.match(r"""\s*((?:pub(?:\([a-z]+\))?\s+)?)const\s+(\w+)\s*:\s*&\s*(?:'static\s+)?\[\s*u8\s*\]\s*=\s*(b"((?:[^"\\]|\\.|\\\n)*)")\s*;\s*$""",
                 plain, re.S)
    if not m:
        return plain
    lit, body = m.group(3), m.group(4)
    out = []
    i = 0
    simple = {"\\": 92, "n": 10, "r": 13, "t": 9, "0": 0, '"': 34, "'": 39}
    while i < len(body):
        ch = body[i]
        if ch != "\\":
            if ord(ch) > 127:
                raise BuildError("R9-bytestr: non-ASCII character in byte string literal of %s" % name)
            out.append(ord(ch))
            i += 1
            continue
        nx = body[i + 1]
        if nx in simple:
            out.append(simple[nx])
            i += 2
        elif nx == "x":
            out.append(int(body[i + 2:i + 4], 16))
            i += 4
        elif nx == "\n":
            i += 2
            while i < len(body) and body[i] in " \t\n\r":
                i += 1
        else:
            raise BuildError("R9-bytestr: unknown escape \\%s in %s" % (nx, name))
    ens = ["%s@.len() == %d" % (name, len(out))] + ["%s@[%d] == %du8" % (name, k, b) for k, b in enumerate(out)]
    rules.append("R9-bytestr %s: %d bytes decoded from the literal" % (name, len(out)))
    return ("#[verifier::external_body]\n%sexec const %s: &'static [u8]\n    ensures\n        %s,\n{ %s }\n"
            % (m.group(1), name, ",\n        ".join(ens), lit))


def _replace_macro(text, macro, new, rule, rules):
    """Rewrite EVERY invocation `macro!( ... )` (balanced) to `new`, however many there are and whatever the arguments
    (so that editing a message, or removing a statement that contains one, does not lose an anchor)."""
    toks = rsx.tokenize(text)
    edits = []
    for k in range(len(toks) - 2):
        if toks[k][0] == "id" and toks[k][1] == macro and toks[k + 1][1] == "!" and toks[k + 2][1] in ("(", "[", "{"):
            cl = rsx.match_close(toks, k + 2)
            edits.append((toks[k][2], toks[cl][3]))
    for a, b in sorted(edits, reverse=True):
        text = text[:a] + new + text[b:]
    if edits:
        rules.append("%s every `%s!(..)` -> `%s` (%d)" % (rule, macro, new, len(edits)))
    return text

class Emitter:
    def __init__(self):
        self.lines = []
        self.linemap = {}   # gen line (1-based) -> label
        self.fnmap = []     # (start_line, end_line, fnkey)

    def emit(self, text, label=None):
        for l in text.split("\n"):
            self.lines.append(l)
            if label:
                self.linemap[len(self.lines)] = label

    def cur(self):
        return len(self.lines) + 1


def extract_items(u, repo, report):
    """Return list of (take, text, meta)."""
    cache = {}
    out = []
    for tk in u.takes:
        path = os.path.join(repo, tk["file"])
        if path not in cache:
            if not os.path.exists(path):
                raise BuildError("source file missing: %s" % tk["file"])
            src = open(path).read()
            toks, items = rsx.find_items(src)
            cache[path] = (src, toks, items)
        src, toks, items = cache[path]
        if tk["kind"] == "block":
            # R6: the statement block between two code anchors inside a function, wrapped into a function whose
            # parameters are the block's free variables (signature and tail expression given by the unit)
            blk = tk["block"]
            spec = {}
            for (_lab, l) in blk["lines"]:
                m_ = re.match(r"\s*(from|to|sig|tail):\s*(.*)$", l)
                if m_:
                    spec[m_.group(1)] = m_.group(2).strip().strip("`")
            for need in ("from", "to", "sig", "tail"):
                if need not in spec:
                    raise BuildError("block %s: missing `%s:`" % (blk["name"], need))
            if "::" in blk["fn"]:
                # a method: `Type::method` - the fn named `method` directly inside an impl whose header mentions `Type`
                ty_, meth_ = blk["fn"].split("::", 1)
                fc = [it for it in items if it[0] == "fn" and it[1] == meth_ and it[5] and it[5][-1][0] == "impl"
                      and re.search(r"(?<![A-Za-z0-9_])%s(?![A-Za-z0-9_])" % re.escape(ty_), it[5][-1][1])]
            else:
                fc = [it for it in items if it[0] == "fn" and it[1] == blk["fn"] and not it[5]]
            if len(fc) != 1:
                raise BuildError("anchor lost: fn %s for block %s: %d candidates" % (blk["fn"], blk["name"], len(fc)))
            fa, fb = toks[fc[0][2]][2], toks[fc[0][3]][3]
            ftext = src[fa:fb]
            if ftext.count(spec["from"]) != 1 or ftext.count(spec["to"]) != 1:
                raise BuildError("anchor lost: block %s anchors occur %d / %d times in %s" % (
                    blk["name"], ftext.count(spec["from"]), ftext.count(spec["to"]), blk["fn"]))
            p0 = ftext.index(spec["from"]); p1 = ftext.index(spec["to"])
            if p1 < p0:
                raise BuildError("anchor lost: block %s end anchor before start anchor" % blk["name"])
            b0 = ftext.rfind("\n", 0, p0) + 1
            b1 = ftext.find("\n", p1 + len(spec["to"]))
            b1 = len(ftext) if b1 < 0 else b1
            body = ftext[b0:b1]
            text = "%s\n{\n%s\n    %s\n}" % (spec["sig"], body, spec["tail"])
            meta = dict(file=tk["file"], kind="block", name=blk["name"], line_start=rsx.line_of(src, fa + b0),
                        line_end=rsx.line_of(src, fa + b1), sha256=hashlib.sha256(body.encode()).hexdigest(),
                        rules=["R6 statement block of fn %s wrapped as `%s` with tail `%s`" % (blk["fn"], spec["sig"], spec["tail"])],
                        stub=False, block_body=body)
            out.append((tk, text, meta))
            continue
        cands = []
        for (kind, name, a, b, kw, ctx) in items:
            if kind != tk["kind"]:
                continue
            if kind == "impl":
                if re.sub(r"\s+", "", name) == re.sub(r"\s+", "", tk["name"]):
                    cands.append((kind, name, a, b, kw, ctx))
            else:
                want = tk["name"]
                if "/" in want:
                    outer, inner = want.split("/")
                    if name == inner and ctx and ctx[-1][1] == outer:
                        cands.append((kind, name, a, b, kw, ctx))
                elif name == want and not any(c[0] in ("fn",) for c in ctx) and not any(
                        c[0] == "impl" for c in ctx) and not any(c[0] == "mod" and c[1] == "tests" for c in ctx):
                    cands.append((kind, name, a, b, kw, ctx))
        # drop #[cfg(test)] candidates (D5)
        cands2 = []
        for c in cands:
            txt = rsx.text_of(src, toks, c[2], c[3])
            if re.match(r"\s*#\[cfg\(test\)\]", txt):
                continue
            cands2.append(c)
        if len(cands2) != 1:
            raise BuildError("anchor lost: %s %s in %s: %d candidates" % (tk["kind"], tk["name"], tk["file"],
                                                                         len(cands2)))
        kind, name, a, b, kw, ctx = cands2[0]
        text = rsx.text_of(src, toks, a, b)
        meta = dict(file=tk["file"], kind=kind, name=tk["name"], line_start=rsx.line_of(src, toks[a][2]),
                    line_end=rsx.line_of(src, toks[b][3]), sha256=hashlib.sha256(text.encode()).hexdigest(),
                    rules=[], stub=tk["stub"])
        if kind == "impl" and tk["methods"] is not None:
            # select methods
            hdr_end = kw
            while toks[hdr_end][1] != "{":
                hdr_end += 1
            header = src[toks[a][2]:toks[hdr_end][3]]
            pieces = []
            mmeta = []
            for m in tk["methods"]:
                mc = [it for it in items if it[0] == "fn" and it[1] == m and it[5] and it[5][-1] == ("impl", name)
                      and it[2] > hdr_end and it[3] < b]
                if len(mc) != 1:
                    raise BuildError("anchor lost: method %s in impl %s (%s): %d candidates" % (m, tk["name"],
                                                                                              tk["file"], len(mc)))
                ma, mb = mc[0][2], mc[0][3]
                mtext = rsx.text_of(src, toks, ma, mb)
                pieces.append((m, mtext))
                mmeta.append(dict(method=m, line_start=rsx.line_of(src, toks[ma][2]),
                                  line_end=rsx.line_of(src, toks[mb][3]),
                                  sha256=hashlib.sha256(mtext.encode()).hexdigest()))
            meta["methods"] = mmeta
            meta["rules"].append("D4 impl restricted to methods: %s" % " ".join(tk["methods"]))
            out.append((tk, dict(header=header, methods=pieces), meta))
        else:
            out.append((tk, text, meta))
    return out


def type_short(implname):
    """`<'a, 'hunk, Line> HunkView<'a, 'hunk, Line>` -> HunkView ; `Iterator for X<'a>` -> X"""
    s = implname
    # remove leading generics
    s = s.strip()
    if s.startswith("<"):
        d = 0
        for i, ch in enumerate(s):
            if ch == "<":
                d += 1
            elif ch == ">":
                d -= 1
                if d == 0:
                    s = s[i + 1:].strip()
                    break
    if " for " in s:
        s = s.split(" for ", 1)[1].strip()
    m = re.match(r"([A-Za-z_][A-Za-z0-9_]*)", s)
    return m.group(1)


def transform_fn(u, fnkey, text, em, meta, is_trait_impl=False, nested=False, stub=False, add_pub=True, r4=DEFAULT_R4):
    """Apply rules to one fn item and emit it with contracts."""
    rules = meta["rules"]
    plain = rsx.strip_comments(text)
    if plain != text:
        rules.append("D2 comments")
    plain = _rewrite_attrs(plain, rules)
    # unit-specific replaces (R-rules with explicit old/new text)
    for rp in u.replaces:
        if rp["fn"] != fnkey:
            continue
        cnt = plain.count(rp["old"])
        if (cnt < 1) if rp.get("all") else (cnt != 1):
            raise BuildError("anchor lost: replace in %s (%s): %r occurs %d times" % (fnkey, rp["rule"], rp["old"],
                                                                                    cnt))
        plain = plain.replace(rp["old"], rp["new"])
        rules.append("%s `%s` -> `%s`%s" % (rp["rule"], rp["old"], rp["new"], (" (%d occurrences)" % cnt) if rp.get("all") else ""))
    for mr in getattr(u, "macro_replaces", []):
        if mr["fn"] == fnkey:
            plain = _replace_macro(plain, mr["macro"], mr["new"], mr["rule"], rules)
    if not os.environ.get("VERIF_NO_R8"):
        plain = _continue_to_else(plain, rules)
    bs_consts = {}
    if fnkey in getattr(u, "inline_bytestr", []):
        plain = _inline_bytestr(plain, fnkey, rules, bs_consts)
    if fnkey in getattr(u, "name_wildcards", []):
        plain = _name_wildcards(plain, rules)
    if fnkey in getattr(u, "mut_self", []):
        plain = _mut_self(plain, rules)
    # placeholders @iN@ / @xN@ in injected text = the index / element variable names of the N-th desugared enumerate loop
    # of this function AS THEY ARE CALLED IN THE SOURCE on this run (a rename of the loop variable does not lose the proof)
    r7_names = {}
    nth = 0
    for (fk, k) in getattr(u, "desugar", []):
        if fk == fnkey:
            plain = _desugar_enumerate(plain, k, rules)
            r7_names["@i%d@" % nth], r7_names["@x%d@" % nth] = _desugar_enumerate.last_names
            nth += 1
    plain = _apply_r4(plain, set(r4), rules)
    if add_pub and not is_trait_impl:
        p2 = _ensure_pub(plain)
        if p2 != plain:
            rules.append("R1 pub")
        plain = p2
    stageA = plain
    # ---- stage B: injection
    parts = _fn_parts(plain)
    toks = parts["toks"]
    inserts = []  # (pos, text-lines [(label,text)], newline_before)
    contract = u.contracts.get(fnkey)
    if stub:
        if parts["open"] is None:
            raise BuildError("stub %s has no body" % fnkey)

    def inject_sig(pp, c, key):
        c["used"] = True
        if pp["arrow"] is not None:
            a = pp["arrow"]
            endtok = pp["where"] if pp["where"] is not None else pp["open"]
            ts, te = toks[a + 1][2], toks[endtok - 1][3]
            rtype = plain[ts:te]
            if not rtype.strip().startswith("(" + c["ret"] + ":"):
                inserts.append(("replace", ts, te, "(%s: %s)" % (c["ret"], rtype.strip())))
                rules.append("R2 named return")
        inserts.append(("insert", toks[pp["open"]][2], c["lines"], "%s.contract" % key))

    if contract is not None:
        inject_sig(parts, contract, fnkey)
    # contracts on nested fns: key "outer/inner"
    for key, c in u.contracts.items():
        if not key.startswith(fnkey + "/"):
            continue
        inner = key.split("/", 1)[1]
        idx = [k for k in range(parts["open"], parts["close"]) if toks[k][1] == "fn" and toks[k + 1][1] == inner]
        if len(idx) != 1:
            raise BuildError("anchor lost: nested fn %s in %s (%d candidates)" % (inner, fnkey, len(idx)))
        k = idx[0]
        j = k
        arrow = None
        where = None
        while toks[j][1] != "{":
            if toks[j][1] in ("(", "["):
                j = rsx.match_close(toks, j)
            elif toks[j][1] == "->" and arrow is None:
                arrow = j
            elif toks[j][1] == "where":
                where = j
            j += 1
        inject_sig(dict(arrow=arrow, where=where, open=j), c, key)
    # loops
    loops = _loops_in(plain, toks, parts["open"] + 1, parts["close"]) if parts["open"] is not None else []
    for (fk, k), ld in u.loops.items():
        if fk != fnkey:
            continue
        ld["used"] = True
        if k >= len(loops):
            raise BuildError("anchor lost: loop %d of %s (found %d loops)" % (k, fnkey, len(loops)))
        inserts.append(("insert", toks[loops[k][1]][2], ld["lines"], "%s.loop%d" % (fnkey, k)))
    # hints
    for h in u.hints:
        if h["fn"] != fnkey:
            continue
        h["used"] = True
        idxs = [m.start() for m in re.finditer(re.escape(h["anchor"]), plain)]
        if not idxs:
            raise BuildError("anchor lost: hint anchor %r in %s" % (h["anchor"], fnkey))
        if h["nth"] >= len(idxs):
            raise BuildError("anchor lost: hint anchor %r nth=%d in %s" % (h["anchor"], h["nth"], fnkey))
        if len(idxs) > 1 and h["nth"] == 0 and not h.get("allow_multi"):
            # ambiguous unless nth given explicitly in directive; treat nth=0 as first (documented)
            pass
        p = idxs[h["nth"]]
        if h["where"] == "before":
            # insert at start of the line containing the anchor
            ls = plain.rfind("\n", 0, p) + 1
            inserts.append(("insert", ls, h["lines"], "%s.hint" % fnkey))
        elif h["where"] == "after_stmt":
            # after the `;` that ends the (possibly multi-line) statement containing the anchor
            k0 = [k for k in range(len(toks)) if toks[k][2] >= p]
            if not k0:
                raise BuildError("anchor lost: hint anchor %r in %s" % (h["anchor"], fnkey))
            j_ = k0[0]
            while j_ < len(toks) and toks[j_][1] != ";":
                if toks[j_][1] in ("(", "[", "{"):
                    j_ = rsx.match_close(toks, j_)
                j_ += 1
            if j_ >= len(toks):
                raise BuildError("anchor lost: statement of hint anchor %r in %s has no end" % (h["anchor"], fnkey))
            le = plain.find("\n", toks[j_][3])
            if le < 0:
                le = len(plain)
            inserts.append(("insert", le + 1, h["lines"], "%s.hint" % fnkey))
        elif h["where"] == "after_block":
            # after the closing brace of the block statement that opens on the anchor's line (if/while/for/match {..})
            le0 = plain.find("\n", p)
            le0 = len(plain) if le0 < 0 else le0
            opens = [k for k in range(len(toks)) if toks[k][1] == "{" and p <= toks[k][2] < le0]
            if not opens:
                raise BuildError("anchor lost: hint anchor %r in %s opens no block on its line" % (h["anchor"], fnkey))
            cl = rsx.match_close(toks, opens[-1])
            le = plain.find("\n", toks[cl][3])
            if le < 0:
                le = len(plain)
            inserts.append(("insert", le + 1, h["lines"], "%s.hint" % fnkey))
        elif h["where"] == "after":
            le = plain.find("\n", p + len(h["anchor"]))
            if le < 0:
                le = len(plain)
            inserts.append(("insert", le + 1, h["lines"], "%s.hint" % fnkey))
    if stub:
        # replace body with unimplemented!()
        inserts = [x for x in inserts if not (x[0] == "insert" and x[1] > toks[parts["open"]][2])]
        inserts.append(("replace", toks[parts["open"]][2], toks[parts["close"]][3], "{ unimplemented!() }"))
        rules.append("D4 body dropped (external_body stub)")
    # apply inserts in order of position, building emitted lines with labels
    segs = []
    pos = 0
    # at equal position an insert (contract lines) goes BEFORE a replace (a stub's body): otherwise the replace moves
    # `pos` past the body and the insert resets it, emitting the original body a second time
    order = sorted(inserts, key=lambda x: (x[1], 1 if x[0] == "replace" else 0))
    for ins in order:
        if ins[0] == "replace":
            _, s, e, newt = ins
            segs.append((None, plain[pos:s] + newt))
            pos = e
        else:
            _, p, lines, deflabel = ins
            segs.append((None, plain[pos:p]))
            pos = p
            segs.append(("LINES", lines, deflabel))
    segs.append((None, plain[pos:]))
    done = getattr(u, "_bs_emitted", set())
    for cname, ctext in sorted(bs_consts.items()):
        if cname not in done:
            em.emit(ctext)
            done.add(cname)
    u._bs_emitted = done
    start = em.cur()
    if stub:
        em.emit("#[verifier::external_body]")
    buf = ""
    for sg in segs:
        if sg[0] is None:
            buf += sg[1]
        else:
            # flush buf (without trailing partial line handling: put injected lines on their own lines)
            if buf:
                em.emit(buf.rstrip(" \t") if buf.endswith("\n") is False else buf[:-1])
                buf = ""
            for (lab, l) in sg[1]:
                for ph, nm in r7_names.items():
                    l = l.replace(ph, nm)
                em.emit(l, label=(lab or sg[2]))
    if buf:
        em.emit(buf)
    em.fnmap.append((start, em.cur() - 1, fnkey))
    return stageA


def selfcheck_tokens(src_text, stageA, fnkey, rules):
    """Compare token streams of source and stage-A text modulo the closed rule
    list.  Returns number of differing tokens (0 = verbatim)."""
    def norm(text, undo):
        text = rsx.strip_comments(text)
        text = _rewrite_attrs(text, [])
        ts = [t[1] for t in rsx.tokenize(text)]
        out = []
        for i, t in enumerate(ts):
            if t == "pub":
                continue
            if undo and t in R4_RENAMES.values():
                t = [k for k, v in R4_RENAMES.items() if v == t][0]
            if undo and t == "this":
                t = "self"
            out.append(t)
        return out
    a = norm(src_text, False)
    b = norm(stageA, True)
    if a == b:
        return 0
    import difflib
    sm = difflib.SequenceMatcher(a=a, b=b, autojunk=False)
    diff = 0
    for op, i1, i2, j1, j2 in sm.get_opcodes():
        if op != "equal":
            diff += max(i2 - i1, j2 - j1)
    return diff


def _inject_false(lines, name, fnmap):
    """Put `ensures false,` in front of the first ensures clause of `name`.
    - an EXTRACTED function (key of fnmap, e.g. `Type::method`) is searched only inside its own emitted line range;
    - anything else (spec lemma, raw witness) is found by `fn NAME` and must match exactly once in the file.
    A target that is `#[verifier::external_body]` is refused: Verus does not check the ensures of a trusted function, the
    canary would be meaningless (and `ensures false` on a trusted function would make its callers vacuous)."""
    short = name.split("::")[-1]
    pat = re.compile(r"\bfn\s+%s\s*[<(]" % re.escape(short))
    ranges = [(s_, e_) for (s_, e_, fk) in fnmap if fk == name]
    if ranges:
        cands = [k for (s_, e_) in ranges for k in range(s_ - 1, e_) if pat.search(lines[k])]
        cands = cands[:1]          # the signature line is the first match inside the function's own range
    else:
        cands = [k for k, l in enumerate(lines) if pat.search(l) and not l.strip().startswith("//")]
    if len(cands) != 1:
        raise BuildError("canary target %s: %d candidate definitions (need exactly one)" % (name, len(cands)))
    k = cands[0]
    if any("external_body" in lines[q] for q in range(max(0, k - 3), k)):
        raise BuildError("canary target %s is external_body (trusted): its ensures is never checked" % name)
    for j_ in range(k, min(k + 120, len(lines))):
        st = lines[j_].strip()
        if re.match(r"ensures\b", st):
            lines[j_] = re.sub(r"ensures\b", "ensures false,", lines[j_], count=1)
            return True
        if j_ > k and (st == "{" or st.startswith("{")):
            break
    return False


def build(unit_path, out_dir, canary=False, repo=None):
    # resolved at CALL time: the caller (check, selftest) may point VERIF_REPO at a scratch copy of the sources
    repo = repo or os.environ.get("VERIF_REPO", "/repo")
    u = parse_unit(unit_path)
    em = Emitter()
    report = []
    em.emit("// GENERATED by vx/build.py from %s and %s -- do not edit" % (os.path.relpath(unit_path, VERIF), repo))
    em.emit("#![allow(unused_imports, unused_variables, unused_mut, dead_code, unused_assignments, unused_parens)]")
    em.emit("use vstd::prelude::*;")
    em.emit("verus! {")
    for p in u.prelude:
        em.emit("// ---- prelude %s" % p)
        em.emit(open(os.path.join(VX, "prelude", p)).read())
    for p in u.specs:
        em.emit("// ---- specs %s" % p)
        em.emit(open(os.path.join(VX, "specs", p)).read())
    extraction = []
    items = extract_items(u, repo, report)
    for tk, content, meta in items:
        em.emit("// ---- %s %s  [%s:%d-%d]" % (meta["kind"], meta["name"], meta["file"], meta["line_start"],
                                               meta["line_end"]))
        if tk["kind"] == "impl":
            short = type_short(tk["name"])
            is_trait = " for " in tk["name"]
            if isinstance(content, dict):
                hdr = rsx.strip_comments(content["header"])
                hdr = _rewrite_attrs(hdr, meta["rules"])
                em.emit(hdr)
                for (m, mtext), mm in zip(content["methods"], meta["methods"]):
                    fnkey = "%s::%s" % (short, m)
                    mrules = []
                    mmeta = dict(rules=mrules)
                    stageA = transform_fn(u, fnkey, mtext, em, mmeta, is_trait_impl=is_trait, stub=tk["stub"])
                    d = selfcheck_tokens(mtext, stageA, fnkey, mrules)
                    extraction.append(dict(function=fnkey, file=meta["file"], line_start=mm["line_start"],
                                           line_end=mm["line_end"], sha256=mm["sha256"], rules=sorted(set(mrules)),
                                           differing_tokens=d, stub=tk["stub"]))
                em.emit("}")
            else:
                raise BuildError("impl without method list: %s" % tk["name"])
        elif tk["kind"] == "block":
            fnkey = tk["name"]
            stageA = transform_fn(u, fnkey, content, em, meta, add_pub=False)
            extraction.append(dict(function=fnkey, file=meta["file"], line_start=meta["line_start"], line_end=meta["line_end"],
                                   sha256=meta["sha256"], rules=sorted(set(meta["rules"])),
                                   differing_tokens=selfcheck_tokens(meta["block_body"], stageA, fnkey, meta["rules"]), stub=False,
                                   note="block extraction: differing_tokens counts the wrapper signature, braces and tail as well"))
        elif tk["kind"] == "fn":
            fnkey = tk["name"].replace("/", "::")
            stageA = transform_fn(u, fnkey, content, em, meta, stub=tk["stub"])
            d = selfcheck_tokens(content, stageA, fnkey, meta["rules"])
            extraction.append(dict(function=fnkey, file=meta["file"], line_start=meta["line_start"],
                                   line_end=meta["line_end"], sha256=meta["sha256"],
                                   rules=sorted(set(meta["rules"])), differing_tokens=d, stub=tk["stub"]))
        else:
            plain = rsx.strip_comments(content)
            plain = _rewrite_attrs(plain, meta["rules"])
            for rp in u.replaces:
                if rp["fn"] != "%s:%s" % (tk["kind"], tk["name"]):
                    continue
                if plain.count(rp["old"]) != 1:
                    raise BuildError("anchor lost: replace in %s %s: %r" % (tk["kind"], tk["name"], rp["old"]))
                plain = plain.replace(rp["old"], rp["new"])
                meta["rules"].append("%s `%s` -> `%s`" % (rp["rule"], rp["old"], rp["new"]))
            if tk["kind"] == "struct":
                plain = _add_pub_struct_fields(plain)
            if tk["kind"] == "const":
                plain = _bytestr_const(plain, tk["name"], meta["rules"])
            plain = _ensure_pub(plain)
            meta["rules"].append("R1 pub")
            em.emit(plain)
            extraction.append(dict(item="%s %s" % (tk["kind"], tk["name"]), file=meta["file"],
                                   line_start=meta["line_start"], line_end=meta["line_end"], sha256=meta["sha256"],
                                   rules=sorted(set(meta["rules"]))))
    for ty in getattr(u, "derive_eq", []):
        em.emit("// ASSUMED (D3'): #[derive(PartialEq)] on the field-less enum %s is structural equality" % ty)
        em.emit("impl vstd::std_specs::cmp::PartialEqSpecImpl for %s {" % ty)
        em.emit("    open spec fn obeys_eq_spec() -> bool { true }")
        em.emit("    open spec fn eq_spec(&self, other: &%s) -> bool { *self == *other }" % ty)
        em.emit("}")
        em.emit("pub assume_specification[ <%s as PartialEq>::eq ](a: &%s, b: &%s) -> (r: bool) ensures r == (*a == *b);" % (ty, ty, ty))
    for r in u.raws:
        start = em.cur()
        for (lab, l) in r["lines"]:
            em.emit(l, label=lab)
    em.emit("} // verus!")
    em.emit("fn main() {}")
    # unused contracts are anchor losses
    for k, c in u.contracts.items():
        if not c.get("used"):
            raise BuildError("anchor lost: contract for %s matches no extracted function" % k)
    for k, c in u.loops.items():
        if not c.get("used"):
            raise BuildError("anchor lost: loop contract %s#%d matches no extracted function" % k)
    for h in u.hints:
        if not h.get("used"):
            raise BuildError("anchor lost: hint for %s matches no extracted function" % h["fn"])
    os.makedirs(out_dir, exist_ok=True)
    suffix = "_canary" if canary else ""
    lines = em.lines
    if canary:
        target = canary if isinstance(canary, str) else u.canary
        if not target:
            raise BuildError("unit %s has no canary function" % u.name)
        # inject `ensures false` as the first clause of the canary function's contract
        if not _inject_false(lines, target, em.fnmap):
            raise BuildError("canary injection failed for %s" % target)
    rs = os.path.join(out_dir, u.name + suffix + ".rs")
    with open(rs, "w") as f:
        f.write("\n".join(lines) + "\n")
    # contract clause counts
    clause_counts = {}
    for key, c in u.contracts.items():
        txt = "\n".join(l for _, l in c["lines"])
        clause_counts[key] = dict(requires=len(re.findall(r"\brequires\b", txt)),
                                  ensures=len(re.findall(r"\bensures\b", txt)))
    m = dict(unit=u.name, rs=rs, linemap={str(k): v for k, v in em.linemap.items()}, fnmap=em.fnmap,
             extraction=extraction, labels=u.labels,
             fnprops={k: c["props"] for k, c in u.contracts.items()}, canary=u.canary,
             canaries=getattr(u, "canaries", []),
             verify_only=getattr(u, "verify_only", None),
             prelude=u.prelude, specs=u.specs, contracts=sorted(u.contracts.keys()),
             loops=sorted("%s#%d" % k for k in u.loops.keys()))
    with open(os.path.join(out_dir, u.name + suffix + ".map.json"), "w") as f:
        json.dump(m, f, indent=1)
    return m


if __name__ == "__main__":
    try:
        m = build(sys.argv[1], os.path.join(VERIF, "work"), canary=("--canary" in sys.argv))
        print(m["rs"])
    except (BuildError, rsx.ScanError) as e:
        print("BUILD-ERROR: %s" % e, file=sys.stderr)
        sys.exit(2)
