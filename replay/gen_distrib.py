#!/usr/bin/env python3
"""Extract `FilenameDistributor` (struct + inherent impl) verbatim from /repo's parallel.rs into
src/bin/distrib_extracted.rs so that the bin-only type can be driven by rq-distrib."""
import os, sys
sys.path.insert(0, os.path.join(os.path.dirname(os.path.abspath(__file__)), "..", "vx"))
import rsx
repo = os.environ.get("VERIF_REPO", "/repo")
src = open(os.path.join(repo, "src/rapidquilt/apply/parallel.rs")).read()
toks, items = rsx.find_items(src)
out = ["use std::collections::HashMap;", "use std::hash::{BuildHasherDefault, Hash};"]
for kind, name, a, b, kw, ctx in items:
    if ctx:
        continue
    if (kind == "struct" and name == "FilenameDistributor") or (kind == "impl" and "FilenameDistributor" in name):
        out.append(rsx.text_of(src, toks, a, b))
open(os.path.join(os.path.dirname(os.path.abspath(__file__)), "src/distrib_extracted.rs"), "w").write("\n".join(out) + "\n")
