#!/usr/bin/env python3
"""mk.py: build a scenario file for rq-replay.  usage: mk.py out key=value ...  (file=/patch= take literal text with \\n escapes)"""
import sys
out = sys.argv[1]
lines = []
for a in sys.argv[2:]:
    k, v = a.split("=", 1)
    if k in ("file", "patch"):
        v = v.encode().decode("unicode_escape").encode("latin1").hex()
    lines.append("%s %s" % (k, v))
open(out, "w").write("\n".join(lines) + "\n")
