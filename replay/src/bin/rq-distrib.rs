//! rq-distrib: drive the real FilenameDistributor (text extracted verbatim from /repo by gen_distrib.py).
//! argv: thread_count then pairs "a" or "a:b"; prints name=thread per name.
#[allow(dead_code)]
mod d { include!("../distrib_extracted.rs"); }
fn main() {
    let args: Vec<String> = std::env::args().skip(1).collect();
    let tc: usize = args[0].parse().unwrap();
    let mut dist = d::FilenameDistributor::<String>::new(tc);
    let mut names = Vec::new();
    for a in &args[1..] {
        let mut it = a.splitn(2, ':');
        let x = it.next().unwrap().to_string();
        let y = it.next().map(|s| s.to_string());
        if !names.contains(&x) { names.push(x.clone()); }
        if let Some(y) = &y { if !names.contains(y) { names.push(y.clone()); } }
        dist.add(x, y);
    }
    let map = dist.build();
    for n in names { println!("{}={}", n, map[&n]); }
}
