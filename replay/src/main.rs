//! rq-replay: run one concrete scenario against the real libpatch of /repo and print what happened.
//! Scenario (argv[1], a small line-oriented file so that no JSON crate is needed):
//!   mode apply|parse
//!   fuzz N
//!   reverse 0|1
//!   rollback 0|1          (apply, then roll back with the report)
//!   existed 0|1           (0: start from a non-existent file)
//!   file <hex of file bytes>
//!   patch <hex of patch bytes>
//! Output: key=value lines; `panic=<msg>` if the real code panicked.
use libpatch::analysis::{AnalysisSet, Note};
use libpatch::modified_file::ModifiedFile;
use libpatch::patch::unified::parser::parse_patch;
use libpatch::patch::{HunkApplyReport, PatchDirection, TextFilePatch};
use std::collections::HashMap;

fn unhex(s: &str) -> Vec<u8> {
    let b = s.as_bytes();
    (0..b.len() / 2).map(|i| u8::from_str_radix(std::str::from_utf8(&b[2 * i..2 * i + 2]).unwrap(), 16).unwrap()).collect()
}
fn hex(b: &[u8]) -> String { b.iter().map(|x| format!("{:02x}", x)).collect() }
fn noop(_n: &dyn Note, _p: &TextFilePatch) {}

fn main() {
    let text = std::fs::read_to_string(std::env::args().nth(1).expect("scenario file")).unwrap();
    let mut kv: HashMap<String, String> = HashMap::new();
    for l in text.lines() {
        let mut it = l.splitn(2, ' ');
        if let (Some(k), Some(v)) = (it.next(), it.next()) { kv.insert(k.to_string(), v.trim().to_string()); }
    }
    let get = |k: &str, d: &str| kv.get(k).cloned().unwrap_or(d.to_string());
    let file = unhex(&get("file", ""));
    let patch = unhex(&get("patch", ""));
    let fuzz: usize = get("fuzz", "0").parse().unwrap();
    let reverse = get("reverse", "0") == "1";
    let rollback = get("rollback", "0") == "1";
    let existed = get("existed", "1") == "1";
    let mode = get("mode", "apply");
    let result = std::panic::catch_unwind(|| {
        let parsed = parse_patch(&patch, 0, false);
        let parsed = match parsed {
            Ok(p) => p,
            Err(e) => { println!("parse=error"); println!("parse_error={}", e.to_string().replace('\n', " ")); return; }
        };
        println!("parse=ok");
        println!("file_patches={}", parsed.file_patches.len());
        for (i, fp) in parsed.file_patches.iter().enumerate() {
            println!("fp{}.kind={:?}", i, fp.kind());
            for (j, h) in fp.hunks().iter().enumerate() {
                println!("fp{}.hunk{}.remove_line={} add_line={} remove_len={} add_len={} prefix={} suffix={}", i, j,
                         h.remove.target_line, h.add.target_line, h.remove.content.len(), h.add.content.len(), h.prefix_context, h.suffix_context);
            }
        }
        if mode == "parse" || parsed.file_patches.is_empty() { return; }
        let mut mf = if existed { ModifiedFile::new(&file, true, None) } else { ModifiedFile::new_non_existent() };
        let dir = if reverse { PatchDirection::Revert } else { PatchDirection::Forward };
        let mut reports = Vec::new();
        for (i, fp) in parsed.file_patches.iter().enumerate() {
            let rep = fp.apply(&mut mf, dir, fuzz, &AnalysisSet::default(), &noop);
            println!("fp{}.ok={}", i, rep.ok());
            for (j, hr) in rep.hunk_reports().iter().enumerate() {
                match hr {
                    HunkApplyReport::Applied { line, rollback_line, offset, line_count_diff, fuzz } =>
                        println!("fp{}.hunk{}.report=applied line={} rollback_line={} offset={} diff={} fuzz={}", i, j, line, rollback_line, offset, line_count_diff, fuzz),
                    HunkApplyReport::Failed(r) => println!("fp{}.hunk{}.report=failed {:?}", i, j, r),
                    HunkApplyReport::Skipped => println!("fp{}.hunk{}.report=skipped", i, j),
                }
            }
            reports.push(rep);
        }
        let mut out = Vec::new();
        for l in &mf.content { out.extend_from_slice(l); }
        println!("after_apply={}", hex(&out));
        println!("after_apply_deleted={}", mf.deleted);
        if rollback {
            for (fp, rep) in parsed.file_patches.iter().zip(reports.iter()).rev() {
                fp.rollback(&mut mf, dir, rep);
            }
            let mut out = Vec::new();
            for l in &mf.content { out.extend_from_slice(l); }
            println!("after_rollback={}", hex(&out));
            println!("after_rollback_deleted={}", mf.deleted);
        }
    });
    if let Err(e) = result {
        let msg = if let Some(s) = e.downcast_ref::<String>() { s.clone() } else if let Some(s) = e.downcast_ref::<&str>() { s.to_string() } else { "?".into() };
        println!("panic={}", msg.replace('\n', " "));
    }
}
