#!/usr/bin/env python3
"""Regenerate MANIFEST.json from vx/properties.json + vx/manifest_meta.json (kept valid at all times)."""
import json, os
V = os.path.dirname(os.path.abspath(__file__))
conf = json.load(open(os.path.join(V, "vx", "properties.json")))
meta = json.load(open(os.path.join(V, "vx", "manifest_meta.json")))
checks = []
for pid in sorted(conf["properties"]):
    m = meta["checks"][pid]
    checks.append(dict(
        property_id=pid,
        quick_cmd="./check %s --tier quick" % pid,
        thorough_cmd="./check %s --tier thorough" % pid,
        evidence_file="/verif/evidence/%s.json" % pid,
        replay_cmd_template="./check %s --replay {path}" % pid,
        engine="vx",
        level_claimed=dict(category="proof", text=m["text"], design_ref=m.get("design_ref", "DESIGN.md section 5")),
        level_note=m["note"],
        technique=m["technique"]))
na = [dict(property_id=k, reason=v) for k, v in sorted(meta["not_applicable"].items()) if k not in conf["properties"]]
man = dict(version=1,
           setup_cmd="./setup.sh",
           hooks=dict(guard="opensuse_rapidquilt_verif",
                      enable="no source hooks: contracts are injected into a mechanical extraction of /repo's working tree (vx/build.py)",
                      baseline_off_cmd="cd /repo && cargo test --workspace --no-fail-fast --offline",
                      source_commits=[], add_only=True),
           engines=[dict(name="vx", path="/verif/vx", serves_properties=sorted(conf["properties"]),
                         kind_free_text="contract-based deductive verification: Verus on functions extracted mechanically from /repo on every run, contracts injected from vx/units/*.vu; plus a BOUNDED Kani/CBMC companion for the leaf parsers (vx/kani.py: counterexample finder with native replay, never counted as proof)")],
           checks=checks, not_applicable=na, notes=meta.get("notes", ""))
json.dump(man, open(os.path.join(V, "MANIFEST.json"), "w"), indent=1)
print("MANIFEST.json: %d checks, %d n/a" % (len(checks), len(na)))
