#!/usr/bin/env python3
"""Run the verification units against behaviour-preserving patches (false-alarm measurement).

usage: tools/try_benign.py UNIT[,UNIT..] PATCH.diff [PATCH.diff ..]

Each patch is applied to a scratch copy of /repo/src (never to /repo itself); the listed units are verified with
VERIF_REPO pointing at the copy.  Prints per patch and unit: ok | undecided (reason) | FAILED (obligations -> properties).
A FAILED on a behaviour-preserving patch is a false alarm of the machinery.
"""
import os
import shutil
import subprocess
import sys
import tempfile

V = os.path.dirname(os.path.dirname(os.path.abspath(__file__)))
sys.path.insert(0, os.path.join(V, "vx"))
import run as R  # noqa: E402


def main():
    units = sys.argv[1].split(",")
    rc = 0
    for patch in sys.argv[2:]:
        d = tempfile.mkdtemp(prefix="benign_", dir=os.path.join(V, "work"))
        try:
            shutil.copytree("/repo/src", os.path.join(d, "src"))
            p = subprocess.run(["patch", "-p1", "-s", "-i", os.path.abspath(patch)], cwd=d, capture_output=True, text=True)
            if p.returncode != 0:
                print("%-28s PATCH DOES NOT APPLY: %s" % (os.path.basename(patch), (p.stdout + p.stderr)[:200]))
                continue
            os.environ["VERIF_REPO"] = d
            for u in units:
                r = R.verify_unit(u, canary=False)
                if r.status == "ok":
                    cond = [k for k, v in r.obligations.items() if v.get("conditional")]
                    print("%-28s %-12s ok%s" % (os.path.basename(patch), u, (" (conditional: %s)" % cond) if cond else ""))
                elif r.status == "undecided":
                    print("%-28s %-12s undecided: %s" % (os.path.basename(patch), u, (r.undecided_reason or "")[:160]))
                else:
                    failed = {k: v for k, v in r.obligations.items() if not v["discharged"]}
                    props = sorted({p_ for v in failed.values() for p_ in v["props"]})
                    print("%-28s %-12s FAILED %s -> %s" % (os.path.basename(patch), u, sorted(failed), ",".join(props)))
                    for k, v in failed.items():
                        for e in v["errors"][:2]:
                            print("        %s: %s (%s line %s)" % (k, e["message"], e["function"], e["line"]))
                    rc = 1
        finally:
            os.environ.pop("VERIF_REPO", None)
            shutil.rmtree(d, ignore_errors=True)
    return rc


if __name__ == "__main__":
    sys.exit(main())
