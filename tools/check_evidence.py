#!/usr/bin/env python3
"""Pre-commit check of evidence/*.json: every file must be a record of a run on the UNCHANGED tree that supports the
level claimed in MANIFEST.json (level == level_claimed.category, discharged == obligations >= 1, no violations)."""
import glob, json, os, sys
V = os.path.dirname(os.path.dirname(os.path.abspath(__file__)))
m = json.load(open(os.path.join(V, "MANIFEST.json")))
claimed = {c["property_id"]: c["level_claimed"]["category"] for c in m["checks"]}
bad = 0
for pid, cat in sorted(claimed.items()):
    p = os.path.join(V, "evidence", pid + ".json")
    if not os.path.exists(p):
        print("%s: evidence file missing" % pid); bad += 1; continue
    e = json.load(open(p))
    c = e["coverage"]
    probs = []
    if e.get("level") != cat:
        probs.append("level %r != claimed %r" % (e.get("level"), cat))
    if c["discharged"] != c["obligations"] or c["obligations"] < 1:
        probs.append("discharged %s != obligations %s" % (c["discharged"], c["obligations"]))
    if e.get("violations"):
        probs.append("violations %s" % e["violations"])
    if c.get("undecided"):
        probs.append("undecided run")
    print("%s: %s" % (pid, "ok (%s, %d obligations, tier %s)" % (e["level"], c["obligations"], e.get("tier")) if not probs else "; ".join(probs)))
    bad += bool(probs)
sys.exit(1 if bad else 0)
