#!/usr/bin/env python3
"""Self-test of the verification machinery (not a property check).

1. span resolution: a panic!/unreachable! diagnostic must be attributed to its call site in the unit file, never to
   the macro definition's line number (regression: DESIGN.md section 10).
2. mutation suite: each entry edits a scratch copy of /repo/src and states which obligations must FAIL and which
   properties must NOT be alarmed.  `undecided` is a failure of the suite (a missed detection).

usage: tools/selftest.py [unit ...]      exit 0 = all as expected
"""
import json, os, shutil, subprocess, sys, tempfile
V = os.path.dirname(os.path.dirname(os.path.abspath(__file__)))
sys.path.insert(0, os.path.join(V, "vx"))
import run as R

PM = "src/libpatch/patch/mod.rs"
MUTANTS = [
 # unit, file, old, new, must_fail labels, props that must not be charged
 ("apply", PM, "forward_indexes.interleave(backward_indexes)", "backward_indexes.interleave(forward_indexes)", ["C02.try_apply"], ["C01", "C03", "C04", "C20"]),
 ("apply", PM, "HunkPosition::Middle => hunk_view.remove_target_line() + last_hunk_offset,", "HunkPosition::Middle => hunk_view.remove_target_line(),", ["C02.try_apply"], ["C01", "C03", "C04"]),
 ("apply", PM, "last_frozen_line = line + hunk_view.remove_content().len() as isize - hunk_view.suffix_context() as isize;",
               "last_frozen_line = line + hunk_view.remove_content().len() as isize;", ["C02.levels"], ["C03", "C04"],
               ["C03.order", "C03.apply_post", "C04.rollback_reports", "C04.rollback_content"]),   # frozen line too HIGH: C03 still holds and must stay proved
 ("apply", PM, "last_frozen_line = line + hunk_view.remove_content().len() as isize - hunk_view.suffix_context() as isize;",
               "last_frozen_line = line;", ["C02.levels", "C03.order"], []),                       # frozen line too LOW: changed regions may overlap
 ("apply", PM, "modification_offset += *line_count_diff;", "modification_offset -= *line_count_diff;", ["C03.apply_post"], ["C02"]),
 ("apply", PM, "let first_changed_line = (target_line + prefix_context as isize) as usize;",
               "let first_changed_line = (target_line + suffix_context as isize) as usize;", ["C03.apply_post"], ["C02"]),
 ("apply", PM, "*rollback_line = target_line;", "*rollback_line = *line;", ["C04.rollback_lines"], ["C01", "C02", "C03", "C20"]),
 ("apply", PM, "for current_fuzz in possible_fuzz_levels {", "for current_fuzz in possible_fuzz_levels.rev() {", ["C02.levels"], ["C03", "C04"]),
 ("apply", PM, "let hunk_view = &hunk.view(direction, current_fuzz);", "let hunk_view = &hunk.view(direction, fuzz);", ["C02.levels"], ["C03"]),
 ("apply", PM, "        if let ApplyMode::Rollback(previous_report) = apply_mode {\n            modified_file.deleted = previous_report.previous_deleted;\n        }\n", "",
               ["C04.undo_post"], ["C01", "C02", "C03", "C20"]),
 ("apply", PM, "            matches(&remove_content[prefix_context..(remove_content.len() - suffix_context)],\n                    &modified_file.content, target_line + prefix_context as isize)",
               "            matches(&remove_content, &modified_file.content, target_line)", ["C04.try_rollback"], ["C01", "C02", "C03", "C20"]),
 # rollback picks the fuzz LIMIT (always 0 in rollback) instead of the level recorded in the previous report (third-round seed C04b);
 # C02/C03/C20 obligations of the same function become conditional (undecided), they must not be charged
 ("apply", PM, "HunkApplyReport::Applied { fuzz, .. } =>\n                        fuzz..=fuzz,", "HunkApplyReport::Applied { .. } =>\n                        fuzz..=fuzz,",
               ["C04.rollback_reports"], ["C02", "C03", "C20"]),
 # the pre-fix call site of ModifiedFiles::rollback (defect repaired by /repo db44bfc): undo requested as Forward whatever the entry's -R
 ("apply", "src/rapidquilt/apply/common.rs", "applied_patch.file_patch.rollback(&mut file, applied_patch.report.direction(), &applied_patch.report);",
  "applied_patch.file_patch.rollback(&mut file, PatchDirection::Forward, &applied_patch.report);", ["undo_call_common.body", "C04.callsite"], ["C01", "C02", "C03", "C20"]),
 ("distributor", "src/rapidquilt/apply/parallel.rs",
  "            let filename_root = self.find_root(filename_index);\n            let new_filename_root = self.find_root(new_filename_index);\n            if filename_root < new_filename_root {\n                self.connected_components[new_filename_root] = filename_root;\n            } else {\n                self.connected_components[filename_root] = new_filename_root;\n            }\n",
  "            if filename_index < new_filename_index {\n                let i = self.connected_components[new_filename_index];\n                self.connected_components[i] = filename_index;\n            } else {\n                let i = self.connected_components[filename_index];\n                self.connected_components[i] = new_filename_index;\n            }\n",
  ["C07.add"], []),
 ("lines", "src/libpatch/modified_file.rs", "            writer.write_all(line)?;\n", "            if !self.deleted { writer.write_all(line)?; }\n", ["C01.write_concat"], ["C04"]),
 ("lines", "src/libpatch/util/lines_with_endings.rs", "if self.previous_offset >= self.input.len() {", "if self.previous_offset > self.input.len() {", ["C01.next_line"], ["C04"]),
 ("names", "src/rapidquilt/apply/common.rs",
  "                        // It exists on disk, lets use it!\n                        old_filename\n                    } else {\n                        // Otherwise we choose new_filename without any additional checks.\n                        // See comment in the last match branch below.\n                        new_filename",
  "                        new_filename\n                    } else {\n                        old_filename", ["C16.choose"], []),
 ("parser", "src/libpatch/patch/unified/parser.rs",
  "                hunk.remove.content.push(line);\n                header.remove_count -= 1;\n\n                there_was_a_non_context_line = true;\n                hunk.suffix_context = 0;",
  "                hunk.remove.content.push(line);\n                header.remove_count -= 1;\n\n                there_was_a_non_context_line = true;", ["C01.hunk_wf"], ["C11"]),
 ("parser", "src/libpatch/patch/unified/parser.rs", "        if count == 0 {\n            line as isize\n        } else {", "        if false {\n            line as isize\n        } else {", ["C01.start_lines"], ["C11"]),
 ("parser", "src/libpatch/patch/unified/parser.rs", "hunk.add.content.reserve(std::cmp::min(header.add_count, input.len()));", "hunk.add.content.reserve(header.add_count);", ["parse_hunk.body"], []),
 # parse_hunk_header (verified body since the fifth seed round)
 ("parser", "src/libpatch/patch/unified/parser.rs", "    let input = input.strip_prefix(b\" +\")", "    let input = input.strip_prefix(b\" -\")", ["C01.header"], []),
 ("parser", "src/libpatch/patch/unified/parser.rs", "            add_line, add_count,\n            remove_line, remove_count,", "            add_line: remove_line, add_count,\n            remove_line: add_line, remove_count,", ["C01.header"], ["C11"]),
 # parse_hunks (totality): without the progress assignment the loop parses the same hunk for ever
 ("parser", "src/libpatch/patch/unified/parser.rs", "                hunks.push(hunk);\n                input = input_;", "                hunks.push(hunk);", ["C11.parse_hunks"], []),
 # parse_c_string (totality): the byte after a backslash "is always there"
 ("parser", "src/libpatch/patch/unified/parser.rs", "                let c = match input.get(index) {", "                let c = match Some(&input[index]) {", ["parse_c_string.body"], []),
 ("parser", "src/libpatch/patch/unified/parser.rs", "                        match parse_oct3(&input[index..]) {", "                        match parse_oct3(&input[index + 1..]) {", ["parse_c_string.body"], []),
 # token parsers (verified bodies since the fourth seed round)
 ("parser", "src/libpatch/patch/unified/parser.rs", "    if digits.len() != 6 { // This is what patch requires", "    if digits.len() > 6 { // This is what patch requires", ["C11.tokens"], []),
 ("parser", "src/libpatch/patch/unified/parser.rs", "            => Err(ErrorBuilder::BadHash(input)),\n        (name, rest)\n            => Ok((rest, name)),",
  "            => Err(ErrorBuilder::BadHash(input)),\n        (name, rest)\n            => Ok((name, rest)),", ["C11.tokens"], []),
 # parse_number_usize (verified body since the fourth seed round): an over-long number must be an error, not a panic
 ("parser", "src/libpatch/patch/unified/parser.rs",
  "    match usize::from_str(str) {\n        Ok(number) => Ok((input_, number)),\n        Err(_) => Err(ErrorBuilder::NumberTooBig(digits)),\n    }",
  "    Ok((input_, usize::from_str(str).unwrap()))", ["parse_number_usize.body"], []),
 ("parser", "src/libpatch/patch/unified/parser.rs", "    if digits.is_empty() {\n        return Err(ErrorBuilder::BadNumber(input));\n    }\n", "", ["C11.number"], []),
 # parse_hunk_line (verified body since the third seed round)
 ("parser", "src/libpatch/patch/unified/parser.rs", "Ok((take_line_incl(input)?.0, (hunk_line_type, &line[..line.len() - 1]))),",
  "Ok((take_line_incl(input)?.0, (hunk_line_type, &line[..line.len() - 2]))),", ["C01.hunk_line", "parse_hunk_line.body"], []),
 ("parser", "src/libpatch/patch/unified/parser.rs", "Ok((take_line_incl(input)?.0, (hunk_line_type, &line[..line.len() - 1]))),",
  "Ok((&input[memchr::memchr(b'\\n', input).unwrap_or(input.len()) + 1..], (hunk_line_type, &line[..line.len() - 1]))),", ["parse_hunk_line.body"], []),
 ("parser", "src/libpatch/patch/unified/mod.rs", 'b"\\\\ No newline at end of file\\n"', 'b"/ No newline at end of file\\n"', ["C01.hunk_line"], ["C11"]),
 ("pushrange", "src/rapidquilt/cmd.rs",
  "        if applied_patch_filenames.len() > series_patches.len() {\n            return Err(format_err!(\"There are more patches in \\\".pc/applied-patches\\\" than in \\\"series\\\"!\"));\n        }\n", "",
  ["push_range.body"], []),
 ("pushrange", "src/rapidquilt/cmd.rs", "first_patch.saturating_add(n)", "first_patch + n", ["push_range.body"], []),
 ("pushrange", "src/rapidquilt/cmd.rs", "if p1.filename != p2.filename {", "if p1.filename == p2.filename {", ["C17.refuse"], []),
]


def test_span_resolution():
    d = json.load(open(os.path.join(V, "vx", "selftest", "panic_span.json")))
    sp = R.resolve_span(d["spans"][0], "unit.rs")
    ok = sp is not None and sp["line_start"] == 2160 and sp["is_primary"]
    # a span that never reaches the unit file must be dropped
    bad = dict(d["spans"][0]); bad = json.loads(json.dumps(bad)); bad["expansion"] = None
    ok = ok and R.resolve_span(bad, "unit.rs") is None
    print("span-resolution: %s" % ("ok" if ok else "BROKEN"))
    return ok


def run_mutant(m):
    unit, f, old, new, must_fail, must_not = m[:6]
    must_stay = m[6] if len(m) > 6 else []     # obligations that must stay PROVED: neither failed nor conditional
    d = tempfile.mkdtemp(prefix="selftest_", dir=os.path.join(V, "work"))
    try:
        shutil.copytree("/repo/src", os.path.join(d, "src"))
        p = os.path.join(d, f)
        s = open(p).read()
        if s.count(old) != 1:
            return "STALE (source text occurs %d times)" % s.count(old)
        open(p, "w").write(s.replace(old, new))
        saved = os.environ.get("VERIF_REPO")
        os.environ["VERIF_REPO"] = d
        try:
            r = R.verify_unit(unit, canary=False)
        finally:
            if saved is None:
                os.environ.pop("VERIF_REPO", None)
            else:
                os.environ["VERIF_REPO"] = saved
        if r.status != "failed":
            return "MISSED (status %s: %s)" % (r.status, r.undecided_reason)
        failed = {k: v for k, v in r.obligations.items() if not v["discharged"]}
        miss = [l for l in must_fail if l not in failed]
        charged = sorted({p for v in failed.values() for p in v["props"]})
        smear = [p for p in must_not if p in charged]
        lost = [l for l in must_stay if l not in r.obligations or not r.obligations[l]["discharged"] or r.obligations[l].get("conditional")]
        if miss or smear or lost:
            return "WRONG attribution: failed=%s missing=%s wrongly_charged=%s not_proved_any_more=%s" % (sorted(failed), miss, smear, lost)
        return "ok (%s -> %s)" % (", ".join(sorted(failed)), ",".join(charged))
    finally:
        shutil.rmtree(d, ignore_errors=True)


def repo_state():
    """HEAD + dirty flag of /repo.  The suite copies /repo/src per mutant, so a seeded change applied to /repo by a
    concurrent job (tools/try_seed.sh) would silently contaminate the copies: refuse to run on a dirty tree and
    declare the run invalid if the state changes underneath."""
    h = subprocess.run(["git", "-C", "/repo", "rev-parse", "HEAD"], capture_output=True, text=True).stdout.strip()
    d = subprocess.run(["git", "-C", "/repo", "status", "--porcelain", "--untracked-files=no"], capture_output=True, text=True).stdout.strip()
    return (h, d)


def main():
    units = set(sys.argv[1:])
    os.makedirs(os.path.join(V, "work"), exist_ok=True)
    st0 = repo_state()
    if st0[1]:
        print("SELFTEST INVALID: /repo has uncommitted changes (a seeded change applied?):\n" + st0[1])
        return 2
    good = test_span_resolution()
    for m in MUTANTS:
        if units and m[0] not in units:
            continue
        res = run_mutant(m)
        if repo_state() != st0:
            print("SELFTEST INVALID: /repo changed while the suite was running; results discarded")
            return 2
        print("%-12s %-60s %s" % (m[0], (m[2].strip().split("\n")[0])[:58], res))
        good = good and res.startswith("ok")
    print("SELFTEST %s" % ("PASSED" if good else "FAILED"))
    return 0 if good else 1


if __name__ == "__main__":
    sys.exit(main())
