#!/bin/sh
# usage: tools/try_seed.sh PATCH.diff Cxx [Cyy ...]
# Applies a seeded change to /repo, runs the given checks (real exit codes), ALWAYS restores /repo.
set -u
patch="$1"; shift
cd /repo || exit 2
if [ -n "$(git status --porcelain --untracked-files=no)" ]; then echo "/repo is not clean, refusing"; exit 2; fi
git apply "$patch" || { echo "patch does not apply"; exit 2; }
trap 'cd /repo && git checkout -- . ' EXIT INT TERM
cd /verif
# evidence of a run on a deliberately changed tree must never land in the committed evidence/ directory
VERIF_EVIDENCE_DIR=/verif/work/scratch/evidence_seed; export VERIF_EVIDENCE_DIR
for p in "$@"; do
  ./check "$p" > "work/scratch/seed_$p.out" 2>&1; rc=$?
  echo "== check $p: exit $rc"; grep "^VIOLATION\|^OK\|^UNDECIDED\|^KNOWN" "work/scratch/seed_$p.out"
done
