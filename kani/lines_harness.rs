// Appended (under cfg(kani)) to a scratch copy of src/libpatch/util/lines_with_endings.rs by vx/kani.py.
// BOUNDED check of the real line splitter on every input of at most N bytes.  Never counted as proof.
#[cfg(kani)]
mod verif_kani {
    use super::*;

    // ==== SHARED BEGIN  (plain Rust; also compiled into the native replay test by vx/kani.py)
    /// C01 level 1 (specs/lines.rs: lines_ok): the lines are consecutive pieces of the input that together make up the
    /// whole input (nothing lost, nothing invented, order kept), none is empty, a LF occurs only as the last byte of a
    /// line, and every line but possibly the last ends with LF.
    fn check_exact_split_lines(input: &[u8]) {
        let mut pos = 0usize;
        for line in split_lines_with_endings(input) {
            assert!(!line.is_empty());
            assert!(pos + line.len() <= input.len());
            let mut i = 0;
            while i < line.len() {
                assert!(line[i] == input[pos + i]);
                if i + 1 < line.len() { assert!(line[i] != b'\n'); }
                i += 1;
            }
            pos += line.len();
            if pos < input.len() { assert!(line[line.len() - 1] == b'\n'); }
        }
        assert!(pos == input.len());
    }
    // ==== SHARED END

    macro_rules! exact {
        ($name:ident, $check:ident, $n:expr) => {
            #[kani::proof]
            #[kani::unwind(12)]
            fn $name() {
                let buf: [u8; $n] = kani::any();
                let n: usize = kani::any();
                kani::assume(n <= $n);
                $check(&buf[..n]);
            }
        };
    }
    exact!(exact_split_lines, check_exact_split_lines, 7);
}
