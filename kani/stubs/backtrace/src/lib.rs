#[derive(Debug, Clone, Default)]
pub struct Backtrace;
impl Backtrace {
    pub fn new() -> Self { Backtrace }
    pub fn new_unresolved() -> Self { Backtrace }
    pub fn resolve(&mut self) {}
}
