//! Stand-in for the `memchr` crate under Kani: naive loops with the documented meaning
//! (first index of the needle / iterator over all indexes, in increasing order).
pub fn memchr(needle: u8, haystack: &[u8]) -> Option<usize> {
    let mut i = 0;
    while i < haystack.len() {
        if haystack[i] == needle { return Some(i); }
        i += 1;
    }
    None
}
pub struct Memchr<'h> { needle: u8, haystack: &'h [u8], pos: usize }
impl<'h> Memchr<'h> {
    pub fn new(needle: u8, haystack: &'h [u8]) -> Memchr<'h> { Memchr { needle, haystack, pos: 0 } }
}
impl<'h> Iterator for Memchr<'h> {
    type Item = usize;
    fn next(&mut self) -> Option<usize> {
        while self.pos < self.haystack.len() {
            let p = self.pos;
            self.pos += 1;
            if self.haystack[p] == self.needle { return Some(p); }
        }
        None
    }
}
pub fn memchr_iter<'h>(needle: u8, haystack: &'h [u8]) -> Memchr<'h> { Memchr::new(needle, haystack) }
