// Appended (under cfg(kani)) to a scratch copy of src/libpatch/patch/unified/parser.rs by vx/kani.py.
// BOUNDED checks of the real leaf parsers: every input of at most N bytes (N per harness below).  Never counted as proof.
//   total_*  : the function returns (no panic, no overflow, no out-of-bounds, no unwinding assertion violated)
//   exact_*  : the result equals an executable oracle transcribed from the specification functions of
//              /verif/vx/specs/parser.rs (spec_hunk_line, split at first LF)
// `memchr` is replaced by the naive stand-in crate kani/stubs/memchr (same assumption as the Verus prelude: first index).
#[cfg(kani)]
mod verif_kani {
    use super::*;

    macro_rules! total {
        ($name:ident, $f:expr, $n:expr) => {
            #[kani::proof]
            #[kani::unwind(12)]
            fn $name() {
                let buf: [u8; $n] = kani::any();
                let n: usize = kani::any();
                kani::assume(n <= $n);
                let _ = $f(&buf[..n]);
            }
        };
    }
    total!(total_newline, newline, 6);
    total!(total_take_line_skip, take_line_skip, 8);
    total!(total_take_line_incl, take_line_incl, 8);
    total!(total_parse_oct3, parse_oct3, 6);
    total!(total_parse_c_string, parse_c_string, 7);
    total!(total_parse_filename_direct, parse_filename_direct, 8);
    total!(total_parse_filename, parse_filename, 7);
    total!(total_parse_mode, parse_mode, 8);
    total!(total_parse_git_hash, parse_git_hash, 8);
    total!(total_parse_metadata_line, parse_metadata_line, 8);
    total!(total_parse_git_metadata_line, parse_git_metadata_line, 8);
    total!(total_parse_patch_line, parse_patch_line, 8);
    total!(total_parse_number_usize, parse_number_usize, 8);
    total!(total_parse_hunk_line_and_count, parse_hunk_line_and_count, 4);
    total!(total_parse_hunk_line, parse_hunk_line, 8);

    // ==== SHARED BEGIN  (plain Rust: oracles and checks; also compiled into the native replay test by vx/kani.py)
    // ---- oracles (from vx/specs/parser.rs) ------------------------------------------------------------------------
    /// one text line including its LF and what follows; None without LF   (split_line_incl)
    fn o_split_incl(s: &[u8]) -> Option<(&[u8], &[u8])> {
        let mut i = 0;
        while i < s.len() {
            if s[i] == b'\n' { return Some((&s[..i + 1], &s[i + 1..])); }
            i += 1;
        }
        None
    }
    /// spec_hunk_line: kind (0 add, 1 remove, 2 context), file line, rest
    fn o_hunk_line(input: &[u8]) -> Option<(u8, &[u8], &[u8])> {
        if input.is_empty() { return None; }
        let b = input[0];
        let (ty, text) = if b == b'+' { (0u8, &input[1..]) } else if b == b'-' { (1u8, &input[1..]) }
            else if b == b' ' { (2u8, &input[1..]) } else if b == b'\t' || b == b'\n' { (2u8, input) } else { return None; };
        let (line, rest) = match o_split_incl(text) { Some(x) => x, None => return None };
        if !rest.is_empty() && rest[0] == b'\\' {
            match o_split_incl(rest) { Some((_m, rest2)) => Some((ty, &line[..line.len() - 1], rest2)), None => None }
        } else {
            Some((ty, line, rest))
        }
    }
    fn same(a: &[u8], b: &[u8]) -> bool {
        if a.len() != b.len() { return false; }
        let mut i = 0;
        while i < a.len() { if a[i] != b[i] { return false; } i += 1; }
        true
    }
    // ---- checks: panic (assert) iff the real function disagrees with the oracle on this input -----------------------
    fn check_exact_parse_hunk_line(input: &[u8]) {
        match (parse_hunk_line(input), o_hunk_line(input)) {
            (Ok((rest, (ty, line))), Some((oty, oline, orest))) => {
                let k = match ty { HunkLineType::Add => 0u8, HunkLineType::Remove => 1u8, HunkLineType::Context => 2u8 };
                assert!(k == oty);
                assert!(same(line, oline));
                assert!(same(rest, orest));
            }
            (Err(_), None) => {}
            _ => { assert!(false); }
        }
    }
    fn check_exact_take_line_incl(input: &[u8]) {
        match (take_line_incl(input), o_split_incl(input)) {
            (Ok((rest, line)), Some((oline, orest))) => { assert!(same(line, oline)); assert!(same(rest, orest)); }
            (Err(_), None) => {}
            _ => { assert!(false); }
        }
    }
    fn check_exact_take_line_skip(input: &[u8]) {
        match (take_line_skip(input), o_split_incl(input)) {
            (Ok((rest, line)), Some((oline, orest))) => { assert!(same(line, &oline[..oline.len() - 1])); assert!(same(rest, orest)); }
            (Err(_), None) => {}
            _ => { assert!(false); }
        }
    }
    // ==== SHARED END

    macro_rules! exact {
        ($name:ident, $check:ident, $n:expr) => {
            #[kani::proof]
            #[kani::unwind(12)]
            fn $name() {
                let buf: [u8; $n] = kani::any();
                let n: usize = kani::any();
                kani::assume(n <= $n);
                $check(&buf[..n]);
            }
        };
    }
    exact!(exact_parse_hunk_line, check_exact_parse_hunk_line, 7);
    exact!(exact_take_line_incl, check_exact_take_line_incl, 8);
    exact!(exact_take_line_skip, check_exact_take_line_skip, 8);
}
