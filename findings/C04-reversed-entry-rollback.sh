#!/bin/sh
# C04 (fixed by /repo db44bfc): a series entry marked -R whose patch applies to its first file and fails on its second.
# The rollback of the first (reversed) application was requested as the undo of a FORWARD application
# (ModifiedFiles::rollback, parallel save_files_worker, diagnostics helpers), could not find its lines and hit
#   "Rapidquilt attempted to rollback a patch and that failed. This is a bug."   (exit status 101)
# Expected (and observed after the fix): exit status 1, a.txt unchanged, b.txt.rej written, no panic.
# usage: findings/C04-reversed-entry-rollback.sh /path/to/rapidquilt     (exit 0 = behaves as the property demands)
BIN=${1:-/repo/target/debug/rapidquilt}
D=$(mktemp -d) || exit 2
trap 'rm -rf "$D"' EXIT
mkdir -p "$D/patches"
printf 'new\nctx\n' > "$D/a.txt"
printf 'zzz\n' > "$D/b.txt"
cat > "$D/patches/p1.patch" <<'P'
--- a/a.txt
+++ b/a.txt
@@ -1,2 +1,2 @@
-old
+new
 ctx
--- a/b.txt
+++ b/b.txt
@@ -1 +1 @@
-old2
+new2
P
printf 'p1.patch -R\n' > "$D/series"
"$BIN" push -a -d "$D" > "$D/out.txt" 2>&1
rc=$?
if grep -q "attempted to rollback a patch and that failed" "$D/out.txt"; then echo "FAIL: rollback panic (exit $rc)"; exit 1; fi
[ "$rc" = 1 ] || { echo "FAIL: exit status $rc, expected 1"; exit 1; }
[ "$(cat "$D/a.txt")" = "$(printf 'new\nctx')" ] || { echo "FAIL: a.txt not restored"; exit 1; }
echo "ok: exit 1, a.txt restored, no panic"
