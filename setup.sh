#!/bin/sh
# Offline setup: nothing is downloaded.  Checks that the verifier is present and warms it once.
set -e
cd "$(dirname "$0")"
command -v verus >/dev/null || { echo "verus not on PATH"; exit 1; }
mkdir -p work evidence
cat > work/_warm.rs <<'EOR'
use vstd::prelude::*;
verus! { proof fn warm() ensures 1 + 1 == 2int {} }
fn main() {}
EOR
(cd work && verus _warm.rs >/dev/null 2>&1) || { echo "verus cannot verify a trivial file"; exit 1; }
echo "setup ok"
