#!/bin/sh
# Offline setup: nothing is downloaded.  Checks that the verifier is present and warms it once.
set -e
cd "$(dirname "$0")"
command -v verus >/dev/null || { echo "verus not on PATH"; exit 1; }
mkdir -p work evidence
cat > work/_warm.rs <<'EOR'
use vstd::prelude::*;
verus! { proof fn warm() ensures 1 + 1 == 2int {} }
fn main() {}
EOR
(cd work && verus _warm.rs >/dev/null 2>&1) || { echo "verus cannot verify a trivial file"; exit 1; }
# the bounded Kani companion (C11 quick tier, C01/C11 thorough tier) needs cargo-kani; its absence is reported here, the
# checks themselves then record the harnesses as `error` (never as a failure of the property)
command -v cargo-kani >/dev/null 2>&1 || cargo kani --version >/dev/null 2>&1 || echo "warning: cargo kani not found - bounded companion checks will be skipped"
echo "setup ok"
